#![no_main]
// C18: the fuzzer's bytes are source text for all nine parser entry points (no-panic oracle inside).
libfuzzer_sys::fuzz_target!(|data: &[u8]| { sverif::fuzzrt::run_text(data); });
