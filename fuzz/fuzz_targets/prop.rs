#![no_main]
// Coverage-guided search over the choice sequences of property $SVERIF_PROP (oracle inside).
libfuzzer_sys::fuzz_target!(|data: &[u8]| { sverif::fuzzrt::run_prop(data); });
