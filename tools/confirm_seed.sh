#!/bin/bash
# Confirms a seeded change in a scratch worktree of /repo's HEAD:
#   (a) clean tree + demo: demo passes
#   (b) patched tree: crate compiles, existing tests pass, demo fails
# usage: confirm_seed.sh <dir with patch.diff, demo.rs>   (prints a one-line verdict, exit 0 if confirmed)
set -u
SRC="$1"
WT=/tmp/confirm/wt
export CARGO_NET_OFFLINE=true
if [ ! -d "$WT" ]; then
  mkdir -p /tmp/confirm
  git -C /repo worktree add --detach "$WT" HEAD >/dev/null 2>&1 || { echo "cannot create worktree"; exit 3; }
  cp /repo/Cargo.lock "$WT"/
fi
cd "$WT" || exit 3
git checkout -q --detach "$(git -C /repo rev-parse HEAD)" 2>/dev/null
git checkout -q -- . ; rm -f tests/seed_demo.rs
cp "$SRC/demo.rs" tests/seed_demo.rs
A=$(cargo test --offline --test seed_demo -- --test-threads=1 2>&1 | grep -E "^test result" | tail -1)
case "$A" in *"0 failed"*) ;; *) echo "NOT-CONFIRMED demo does not pass on the clean tree: $A"; git checkout -q -- .; rm -f tests/seed_demo.rs; exit 1;; esac
if ! git apply "$SRC/patch.diff" 2>/dev/null; then
  if ! git apply --3way "$SRC/patch.diff" >/dev/null 2>&1; then echo "NOT-CONFIRMED patch does not apply to HEAD"; git checkout -q -- .; rm -f tests/seed_demo.rs; exit 1; fi
fi
OUT=$(cargo test --offline --lib --bins --tests --no-fail-fast -- --test-threads=1 2>&1)
if echo "$OUT" | grep -qE "could not compile|^error\[E"; then echo "NOT-CONFIRMED patched tree does not compile"; git checkout -q -- .; rm -f tests/seed_demo.rs; exit 1; fi
PASS=$(echo "$OUT" | grep -E "^test result" | awk '{p+=$4; f+=$6} END {print p" passed "f" failed"}')
DEMO=$(echo "$OUT" | grep -E "^test .* FAILED" | wc -l)
DEMOFAIL=$(cargo test --offline --test seed_demo -- --test-threads=1 2>&1 | grep -E "^test result" | tail -1)
OTHERFAIL=$(echo "$OUT" | grep -E "^test .* FAILED" | grep -v "^test " | wc -l)
# existing tests = everything except seed_demo
EXIST=$(cargo test --offline --lib --bins --tests --no-fail-fast -- --test-threads=1 2>&1 | awk '/Running/ {cur=$0} /^test result/ {print cur" :: "$0}' | grep -v seed_demo | grep -vc " 0 failed")
git checkout -q -- . ; rm -f tests/seed_demo.rs
case "$DEMOFAIL" in *"0 failed"*) echo "NOT-CONFIRMED demo still passes with the patch ($DEMOFAIL)"; exit 1;; esac
if [ "$EXIST" != "0" ]; then echo "NOT-CONFIRMED existing tests fail with the patch ($PASS)"; exit 1; fi
echo "CONFIRMED clean: demo passes; patched: existing suite passes ($PASS incl. demo), demo fails ($DEMOFAIL)"
exit 0
