#!/usr/bin/env python3
"""Regenerates /verif/MANIFEST.json from the table below (kept in one place so the
manifest stays valid while properties are added)."""
import json
import os
import subprocess

VERIF = os.path.dirname(os.path.dirname(os.path.abspath(__file__)))

# id -> (technique, level text, level note, design ref)
CLAIMED = {
    "C01": ("differential testing against a reference DFS solver over proptest-generated programs + bounded-exhaustive tiny programs",
            "Exploration: tens of thousands (quick) to millions (thorough) of generated programs, each compared answer by answer (order, multiplicity, variants) with an independent reference interpreter, plus solve_all formatting; a family of tiny programs is enumerated completely in the thorough tier. Holds on everything generated; says nothing beyond the stated size bounds.",
            "Trusts the reference solver (harness/src/refsolve.rs, rt.rs) as the specification of depth-first resolution and of the built-ins' documented behaviour; programs are built through the public API, not the parser.", "DESIGN.md §3.4, §4 C01"),
    "C02": ("differential testing against the reference solver with Suiron's documented cut; every cut position in small bodies enumerated",
            "Exploration: generated programs with `!` anywhere in conjunctions/disjunctions, compared with the reference; all bodies of 1-3 (thorough: 1-4) items over 7 cut-relevant goal shapes x second clause x 3 callers are enumerated exhaustively.",
            "Trusts the reference's reading of the documented cut (commit clause, freeze everything left of the cut and every enclosing group, call yields at most the answer being derived).", "DESIGN.md §3.4, §4 C02"),
    "C03": ("differential testing against the reference solver on generated programs with not(...); small shapes enumerated",
            "Exploration: generated programs with not(G) (G call/conjunction/disjunction/unification/comparison, nested not), compared with the reference; a family of not-positions is enumerated completely.",
            "Trusts the reference solver; no cut inside not.", "DESIGN.md §4 C03"),
    "C04": ("differential testing of captured stdout segments against the reference's output event log",
            "Exploration: generated programs with print/print_list/nl among backtracking goals; the bytes the process writes to fd 1 between consecutive answers must equal the reference's output events between the corresponding answers.",
            "Trusts the reference formatter for print (%s substitution / concatenation) and print_list (one list argument); arguments are ground or bound to ground values.", "DESIGN.md §4 C04"),
    "C05": ("metamorphic testing: re-asking an exhausted query (generated programs, all features)",
            "Exploration: every generated query is asked 3 more times after its first None; each re-ask must return None and write nothing.",
            "No model needed for the re-ask clause; the answers before exhaustion are also compared with the reference.", "DESIGN.md §4 C05"),
    "C06": ("differential testing against a reference Robinson unifier over generated equation histories + exhaustive term pairs",
            "Exploration: generated histories of 1-5 equations over a bounded universe, each step compared with the reference (success, joint resolved tuple a variant of the mgu, earlier bindings kept, sides identical); all ordered pairs of small terms enumerated, also after one prior equation.",
            "Trusts harness/src/rt.rs as the specification of unification without occurs check and with the `$_` wildcard.", "DESIGN.md §3.3, §4 C06"),
    "C07": ("metamorphic testing (swap sides, rename apart, wrap as head/goal) over the C06 generator + exhaustive pairs",
            "Exploration: every generated history is re-run with sides swapped, after recreate_variables, both, as p(t) = p(u), with every list rebuilt by the documented constructor make_linked_list, and - through the knowledge base - as the fact p(t) asked with the query p(u) and the fact p(u) asked with p(t) (arity 1 and 2, clause lookup and renaming included); success and resolved values must agree.",
            "Each variant is additionally compared with the reference unifier.", "DESIGN.md §4 C07"),
    "C08": ("invariant checking over generated alias-heavy unification histories (stateful, history as vec of ops) + exhaustive alias histories",
            "Exploration: histories of up to 8 equations biased to variable/variable steps, and (1 case in 8) alias chains over 8-64 variables (runs of $Vi = $Vi+1 in either direction and operand order, cross links, the two ends of a run related in either order); after every step no binding chain may return to its start (own walker and a bind hook that observes the cycle at creation); all histories of 1-4 alias steps over 3 variables enumerated.",
            "Uses the verif-hooks bind observer to turn non-termination into an observable failure.", "DESIGN.md §4 C08"),
    "C09": ("differential testing against the reference unifier's wildcard rule on generated histories containing `$_`",
            "Exploration: histories that contain `$_` at top level, as argument, list element and tail; same success and resolved values as the reference, and bare-`$_` steps leave the binding vector unchanged.",
            "Trusts the wildcard rule stated in the property.", "DESIGN.md §4 C09"),
    "C11": ("metamorphic testing: alpha-renaming of clause variables on generated programs",
            "Exploration: each generated program is re-solved under 4 renamings of every clause (query's names reused, same names everywhere, long non-ASCII names, rotated names); answers (as variants) and captured output must be identical.",
            "The base run is also compared with the reference solver.", "DESIGN.md §4 C11"),
}

CLAIMED.update({
    "C10": ("invariant checking of every renaming entry point on generated clauses + renamings probed in the middle of generated searches",
            "Exploration: generated clauses (repeated variables, lists incl. [], tails, all goal kinds, function terms) renamed through Rule/Unifiable/Goal::recreate_variables (once and twice, counter at 0 or a random start), get_rule and make_query; resetting ids must give back exactly the original value, lists stay well formed, same name <=> same id, ids are fresh and contiguous; during generated searches get_rule is called after every answer and its ids must be disjoint from everything the answer and the query use.",
            "The mid-search probe restores the id counter afterwards so the observed search is undisturbed.", "DESIGN.md §4 C10"),
    "C12": ("reference fold (checked i64 / f64) over generated operand tuples in four presentations (API literal, API variables, text function form, text infix form)",
            "Exploration: op x 1-4 numbers from a pool with extremes x presentation x partner x side; result compared bit-exactly with the harness's left fold and the whole one-rule program with the reference solver; partners include the equal constant, the neighbouring double / integer (1 ulp or 1 away), the same value in the other numeric type.",
            "Overflow and integer division by zero are discarded (outside the claim).", "DESIGN.md §4 C12"),
    "C13": ("metamorphic testing (function on the left vs on the right) plus reference value, over generated function/partner pairs",
            "Exploration: arithmetic and join function terms paired with 10 kinds of partner, unified in both orders inside a rule; both orders must give the same answers and equal the reference's; one case in eight unifies the function with one of its own argument variables ($X = $X * 1).",
            "Function arguments are in the functions' documented domain.", "DESIGN.md §4 C13"),
    "C14": ("table oracle over generated operand pairs x 5 operators x 3 presentations, with per-cell coverage counters",
            "Exploration: operands over ints (extremes, neighbours of 2^53), floats (+-0.0, 2^53, +-1e300), atoms (unicode, spaces, prefixes), non-constants; literal or through variable chains; API, named text form, infix text form; outcome must equal the comparison table and at most one answer.",
            "The table is the documented rule (numbers numerically with int->f64 conversion, atoms by string order, anything else fails).", "DESIGN.md §4 C14"),
    "C15": ("invariant (well-formedness) + round trip to the element sequence over generated element sequences and six list builders",
            "Exploration: sequences of 0-5 elements incl. nested/empty lists in last position and tails, built by parse_linked_list, recreate_variables, append, include, exclude (inputs also written with a tail variable that an earlier unification bound to the rest of the sequence) and make_linked_list; node chain, counts, tail flags, terminator and decoded elements are checked.",
            "A lone list argument to make_linked_list is treated as unspecified and discarded.", "DESIGN.md §4 C15"),
    "C16": ("differential testing of append against a reference function on generated argument tuples inside generated clauses",
            "Exploration: 1-4 inputs (lists with nested/empty/list-valued last elements, bound-variable elements, tails bound through chains, lists built element by element by a recursive copy/2 rule - a chain of same-named tail variables; atoms, numbers, complex terms; up to 9 inputs and 32 elements) and three kinds of Out; compared with the reference append via the reference solver.",
            "Inputs are closed lists / bound values (documented domain).", "DESIGN.md §4 C16"),
    "C17": ("differential testing of count/include/exclude/functor/join against reference functions on generated scenarios",
            "Exploration: generated lists (bound tails, bound-variable elements), filter patterns with variables and $_, complex terms of arity 0-13 with exact / prefix* (shorter, equal, longer than the functor) / variable functor arguments, literally or through a bound variable, word/punctuation sequences; every variable is exposed in the rule head so a leaked binding shows.",
            "Reference functions are written from the documentation.", "DESIGN.md §4 C17"),
    "C18": ("crash oracle over grammar-generated, mutated and random strings fed to all nine parser entry points (proptest-driven; about 1 million strings in the quick tier, 24 million in the thorough tier)",
            "Exploration: valid text, 1-3 character mutations of valid text and of the repository's test strings, random token soup, 10-70 levels of nested terms / lists / functions / parentheses; any panic is a violation identified by entry point and location, and so is a single input on which the parsers burn more than 20 s of CPU time (the property includes termination).",
            "Termination is judged by CPU time of one case (20 s; the parsers take microseconds), never by wall time.", "DESIGN.md §4 C18"),
    "C19": ("round-trip testing (render -> parse -> compare with the API-built value -> Display) over grammar-generated terms, goals and rules + exhaustive small terms and bodies",
            "Exploration: canonical text and accepted variants (tight commas, quoted atoms, infix comparison/arithmetic, bare zero-arity, redundant parentheses) must parse to the value built through the API from the same AST, and Display must reproduce the canonical text; small terms and and/or bodies enumerated completely.",
            "Canonical text parenthesises every nested operator goal except a conjunction inside a disjunction.", "DESIGN.md §4 C19"),
    "C20": ("metamorphic testing: the same term text in 32 syntactic contexts (positions x spacing variants)",
            "Exploration: grammar terms, generated signed numbers (optional sign, 1-20 digits, optional fraction), punctuation and odd atoms placed alone, as first/second/third argument of complex terms, goals, built-ins, functions, queries and facts (with a blank, without one, with two blanks or a tab after the comma, padded with blanks), as (nested) list element with the same spacing variants and before a tail, as infix operand alone and inside a rule body; all contexts must yield the same term or all must reject.",
            "Ids are stripped before comparing (query construction renames).", "DESIGN.md §4 C20"),
    "C21": ("differential testing of load_kb_from_file against rule-by-rule parse_rule over generated files with random legal layout",
            "Exploration: 1-5 generated rules laid out with breaks after the documented continuation characters (`:-`, `,`, `;`, infix `=` `==` `<=` `>=` and ` - `), indentation, blank lines and #, %, // comments; the loaded knowledge base must equal the rule-by-rule one (class 1: breaks outside parentheses and brackets; class 2: breaks after the same characters also inside argument lists, lists and parenthesised groups of goals, where a rejection with an error is accepted as well). A third of the files are loaded into a knowledge base that already holds rules (possibly of the same predicates) and some files are loaded twice; the reference adds the parsed rules to the same prior content.",
            "A file is in the claim only if each rule is accepted by parse_rule on its own.", "DESIGN.md §4 C21"),
    "C22": ("metamorphic testing over generated query histories (stateful: history as a vector of operations) with a reference check of the baseline",
            "Exploration: 1-5 earlier queries in generated modes (abandoned, exhausted, re-asked, solve, solve_all, timed out, unknown predicate) (and rules for new predicates added to the knowledge base between queries) followed by the query under test, built with make_query or with parse_query from its text (`name(args)`, with a trailing period, bare `name` when it has no arguments); answers and output must equal those of the same query run first. In a few cases per run the caller of the final query sleeps 1.1 s between its first and second answer, so a timer left armed by any earlier solve/solve_all call (whichever way that call ended) fires while the query is live.",
            "Timed-out earlier queries are produced through start_query_timer(1)/cancel_timer (the state solve() leaves after a timeout); real 1 s timeouts are exercised by C23.", "DESIGN.md §4 C22"),
    "C23": ("oracle-checked runs over generated programs with the timer firing at a harness-chosen search step (stop_query() injected at the k-th next_solution), plus runs under the real timer thread: fast generated queries, calibrated slow queries on both sides of the 1 s limit, stray-timer rounds",
            "Exploration: solve/solve_all results must be a prefix of the real answers, complete unless followed by the timeout message, which may only appear after >= 0.95 s; fast queries must never time out; thousands of microsecond queries ending in every possible way must not leave a timer that stops a later query; for generated programs (cut, not, and/or, built-ins) the stop flag is raised at 4 generated search steps each and solve_all / successive solve calls must still report a prefix of the answers, a timeout message only if the flag was raised, and never panic; solve_all / solve on nodes that were made before another query timed out must not report a timeout; asking a timed-out node again (after real and after injected timeouts) may only yield the timeout message after another second, `No more.`, or one of the query's answers.",
            "The real timer thread's interleavings are sampled by real time; the injected-stop class owns the schedule at the granularity of next_solution entries (the only places the engine reads the flag are behind them). Overloaded-machine timings are counted as inconclusive discards.", "DESIGN.md §4 C23"),
    "C24": ("generated programs and call histories (proptest) replayed through the public API under Miri as the undefined-behaviour detector (Stacked Borrows, data races, out-of-bounds, use-after-free)",
            "Exploration: about 100 (quick) / 800 (thorough) generated histories - enumerate and re-ask, solve_all + solve, abandoned query + second query, parse + solve, timer firing during a search, a cut executing underneath not(...)/time(...), loading the program from a file, adding rules for new predicates between two runs of a query, one-rule programs from the C16/C17 list built-in generators - executed under Miri in 16 parallel processes; any Undefined Behavior diagnostic is a violation identified by diagnostic kind and source location. The shallowest check of the set: hundreds of histories, not millions.",
            "Miri's Stacked Borrows model is taken as the definition of aliasing UB; leaks are ignored; the timer thread's schedule is sampled (Miri scheduler seed = VERIF_SEED + shard), not enumerated. Needs `cargo +nightly miri` (pre-installed).", "DESIGN.md §4 C24"),
})

NOT_YET = {
}


def main():
    props = [json.loads(l) for l in open(os.path.join(VERIF, "properties.jsonl"))]
    try:
        commits = subprocess.check_output(["git", "-C", "/repo", "log", "--format=%h %s"], text=True).splitlines()
    except Exception:
        commits = []
    hook_commits = [c.split()[0] for c in commits if c.split(" ", 1)[1].startswith("verif hooks")]
    checks = []
    na = []
    for p in props:
        pid = p["id"]
        if pid in CLAIMED:
            tech, text, note, ref = CLAIMED[pid]
            checks.append({
                "property_id": pid,
                "quick_cmd": "./check %s --tier quick" % pid,
                "thorough_cmd": "./check %s --tier thorough" % pid,
                "evidence_file": "/verif/evidence/%s.json" % pid,
                "replay_cmd_template": "./check %s --replay {path}" % pid,
                "engine": "sverif",
                "level_claimed": {"category": "exploration", "text": text, "design_ref": ref},
                "level_note": note,
                "technique": tech,
            })
        else:
            na.append({"property_id": pid, "reason": NOT_YET.get(pid, "check not built yet in this round (planned, see DESIGN.md §4); not claimed until its check exists and is silent on the unchanged tree")})
    manifest = {
        "version": 1,
        "setup_cmd": "./check build",
        "hooks": {
            "guard": "cargo feature `verif-hooks` of /repo (off by default)",
            "enable": "harness/Cargo.toml depends on suiron-rust with features = [\"verif-hooks\"] (the same crate is what C24 runs under Miri)",
            "baseline_off_cmd": "cd /repo && (cargo nextest run --workspace --no-fail-fast --offline || cargo test --workspace --no-fail-fast --offline -- --test-threads=1)",
            "source_commits": hook_commits,
            "add_only": True,
        },
        "engines": [
            {"name": "sverif", "path": "/verif/harness", "serves_properties": sorted(CLAIMED.keys()),
             "kind_free_text": "Rust harness: proptest-driven choice sequences decoded into terms/programs/histories, bounded-exhaustive enumeration of the same decoders, reference unifier and reference solver as oracles, fd-level stdout capture; driven by ./check (python) with 16 worker processes; for C24 the same binary replays a generated corpus under `cargo +nightly miri run` (special/c24.py)"},
        ],
        "checks": checks,
        "notes": "All checks are property-based testing / fuzzing (see DESIGN.md). quick = fixed work (seconds; C23 about 35 s, C24 about 1 min under Miri), thorough = 15-50x more generated cases and complete enumeration of the bounded families. Exit 2 = inconclusive (build failure, watchdog), never a violation. Runs with --cases/--workers overrides are experiments and write their evidence under work/evidence-adhoc, never to evidence/<id>.json.",
        "not_applicable": na,
    }
    with open(os.path.join(VERIF, "MANIFEST.json"), "w") as f:
        json.dump(manifest, f, indent=1)
    print("MANIFEST.json: %d checks, %d not claimed" % (len(checks), len(na)))


if __name__ == "__main__":
    main()
