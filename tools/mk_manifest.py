#!/usr/bin/env python3
"""Regenerates /verif/MANIFEST.json from the table below (kept in one place so the
manifest stays valid while properties are added)."""
import json
import os
import subprocess

VERIF = os.path.dirname(os.path.dirname(os.path.abspath(__file__)))

# id -> (technique, level text, level note, design ref)
CLAIMED = {
    "C01": ("differential testing against a reference DFS solver over proptest-generated programs + bounded-exhaustive tiny programs",
            "Exploration: tens of thousands (quick) to millions (thorough) of generated programs, each compared answer by answer (order, multiplicity, variants) with an independent reference interpreter, plus solve_all formatting; a family of tiny programs is enumerated completely in the thorough tier. Holds on everything generated; says nothing beyond the stated size bounds.",
            "Trusts the reference solver (harness/src/refsolve.rs, rt.rs) as the specification of depth-first resolution and of the built-ins' documented behaviour; programs are built through the public API, not the parser.", "DESIGN.md §3.4, §4 C01"),
    "C02": ("differential testing against the reference solver with Suiron's documented cut; every cut position in small bodies enumerated",
            "Exploration: generated programs with `!` anywhere in conjunctions/disjunctions, compared with the reference; all bodies of 1-3 (thorough: 1-4) items over 7 cut-relevant goal shapes x second clause x 3 callers are enumerated exhaustively.",
            "Trusts the reference's reading of the documented cut (commit clause, freeze everything left of the cut and every enclosing group, call yields at most the answer being derived).", "DESIGN.md §3.4, §4 C02"),
    "C03": ("differential testing against the reference solver on generated programs with not(...); small shapes enumerated",
            "Exploration: generated programs with not(G) (G call/conjunction/disjunction/unification/comparison, nested not), compared with the reference; a family of not-positions is enumerated completely.",
            "Trusts the reference solver; no cut inside not.", "DESIGN.md §4 C03"),
    "C04": ("differential testing of captured stdout segments against the reference's output event log",
            "Exploration: generated programs with print/print_list/nl among backtracking goals; the bytes the process writes to fd 1 between consecutive answers must equal the reference's output events between the corresponding answers.",
            "Trusts the reference formatter for print (%s substitution / concatenation) and print_list (one list argument); arguments are ground or bound to ground values.", "DESIGN.md §4 C04"),
    "C05": ("metamorphic testing: re-asking an exhausted query (generated programs, all features)",
            "Exploration: every generated query is asked 3 more times after its first None; each re-ask must return None and write nothing.",
            "No model needed for the re-ask clause; the answers before exhaustion are also compared with the reference.", "DESIGN.md §4 C05"),
    "C06": ("differential testing against a reference Robinson unifier over generated equation histories + exhaustive term pairs",
            "Exploration: generated histories of 1-5 equations over a bounded universe, each step compared with the reference (success, joint resolved tuple a variant of the mgu, earlier bindings kept, sides identical); all ordered pairs of small terms enumerated, also after one prior equation.",
            "Trusts harness/src/rt.rs as the specification of unification without occurs check and with the `$_` wildcard.", "DESIGN.md §3.3, §4 C06"),
    "C07": ("metamorphic testing (swap sides, rename apart, wrap as head/goal) over the C06 generator + exhaustive pairs",
            "Exploration: every generated history is re-run with sides swapped, after recreate_variables, both, and as p(t) = p(u); success and resolved values must agree.",
            "Each variant is additionally compared with the reference unifier.", "DESIGN.md §4 C07"),
    "C08": ("invariant checking over generated alias-heavy unification histories (stateful, history as vec of ops) + exhaustive alias histories",
            "Exploration: histories of up to 8 equations biased to variable/variable steps; after every step no binding chain may return to its start (own walker and a bind hook that observes the cycle at creation); all histories of 1-4 alias steps over 3 variables enumerated.",
            "Uses the verif-hooks bind observer to turn non-termination into an observable failure.", "DESIGN.md §4 C08"),
    "C09": ("differential testing against the reference unifier's wildcard rule on generated histories containing `$_`",
            "Exploration: histories that contain `$_` at top level, as argument, list element and tail; same success and resolved values as the reference, and bare-`$_` steps leave the binding vector unchanged.",
            "Trusts the wildcard rule stated in the property.", "DESIGN.md §4 C09"),
    "C11": ("metamorphic testing: alpha-renaming of clause variables on generated programs",
            "Exploration: each generated program is re-solved under 4 renamings of every clause (query's names reused, same names everywhere, long non-ASCII names, rotated names); answers (as variants) and captured output must be identical.",
            "The base run is also compared with the reference solver.", "DESIGN.md §4 C11"),
}

NOT_YET = {
}


def main():
    props = [json.loads(l) for l in open(os.path.join(VERIF, "properties.jsonl"))]
    try:
        commits = subprocess.check_output(["git", "-C", "/repo", "log", "--format=%h %s"], text=True).splitlines()
    except Exception:
        commits = []
    hook_commits = [c.split()[0] for c in commits if c.split(" ", 1)[1].startswith("verif hooks")]
    checks = []
    na = []
    for p in props:
        pid = p["id"]
        if pid in CLAIMED:
            tech, text, note, ref = CLAIMED[pid]
            checks.append({
                "property_id": pid,
                "quick_cmd": "./check %s --tier quick" % pid,
                "thorough_cmd": "./check %s --tier thorough" % pid,
                "evidence_file": "/verif/evidence/%s.json" % pid,
                "replay_cmd_template": "./check %s --replay {path}" % pid,
                "engine": "sverif",
                "level_claimed": {"category": "exploration", "text": text, "design_ref": ref},
                "level_note": note,
                "technique": tech,
            })
        else:
            na.append({"property_id": pid, "reason": NOT_YET.get(pid, "check not built yet in this round (planned, see DESIGN.md §4); not claimed until its check exists and is silent on the unchanged tree")})
    manifest = {
        "version": 1,
        "setup_cmd": "./check build",
        "hooks": {
            "guard": "cargo feature `verif-hooks` of /repo (off by default)",
            "enable": "harness/Cargo.toml depends on suiron-rust with features = [\"verif-hooks\"]; fuzz/ and miri/ crates do the same",
            "baseline_off_cmd": "cd /repo && (cargo nextest run --workspace --no-fail-fast --offline || cargo test --workspace --no-fail-fast --offline -- --test-threads=1)",
            "source_commits": hook_commits,
            "add_only": True,
        },
        "engines": [
            {"name": "sverif", "path": "/verif/harness", "serves_properties": sorted(CLAIMED.keys()),
             "kind_free_text": "Rust harness: proptest-driven choice sequences decoded into terms/programs/histories, bounded-exhaustive enumeration of the same decoders, reference unifier and reference solver as oracles, fd-level stdout capture; driven by ./check (python) with 16 worker processes"},
        ],
        "checks": checks,
        "notes": "All checks are property-based testing / fuzzing (see DESIGN.md). quick = fixed work (seconds), thorough = 20-50x more generated cases and complete enumeration of the bounded families. Exit 2 = inconclusive (build failure, watchdog), never a violation.",
        "not_applicable": na,
    }
    with open(os.path.join(VERIF, "MANIFEST.json"), "w") as f:
        json.dump(manifest, f, indent=1)
    print("MANIFEST.json: %d checks, %d not claimed" % (len(checks), len(na)))


if __name__ == "__main__":
    main()
