#!/bin/bash
# Confirms a sub-agent's seeded change in its own scratch worktree (which already has build output):
#   clean tree: the demo passes; patched tree: the 100 existing tests pass, the demo fails.
# (time_out::test::test_query_timer races a 30 ms timer against a 40 ms sleep and fails on a loaded
#  machine with or without any patch; when it is the only failing existing test it is re-run alone.)
# usage: confirm_mut.sh <worktree> <dir with patch.diff demo.rs>
set -u
WT="$1"; SRC="$2"
export CARGO_NET_OFFLINE=true
cd "$WT" || exit 3
git checkout -q -- . ; rm -f tests/seed_demo.rs
cp "$SRC/demo.rs" tests/seed_demo.rs
A=$(cargo nextest run --offline --no-fail-fast --test seed_demo 2>&1 | grep -E "tests? run" | tail -1)
if ! git apply "$SRC/patch.diff"; then echo "NOT-CONFIRMED patch does not apply"; rm -f tests/seed_demo.rs; exit 1; fi
OUT=$(cargo nextest run --offline --no-fail-fast 2>&1)
B=$(echo "$OUT" | grep -E "tests? run" | tail -1)
FAILS=$(echo "$OUT" | grep -E "^\s+(FAIL|SIGABRT|SIGSEGV|TIMEOUT)" | awk '{print $NF}' | sort -u)
DEMOFAIL=$(echo "$OUT" | grep -E "^\s+(FAIL|SIGABRT|SIGSEGV|TIMEOUT)" | grep -c "::seed_demo")
OTHER=$(echo "$OUT" | grep -E "^\s+(FAIL|SIGABRT|SIGSEGV|TIMEOUT)" | grep -v "::seed_demo" | awk '{print $NF}' | sort -u | tr '\n' ' ')
if [ "$OTHER" = "time_out::test::test_query_timer " ]; then
  R=$(for k in 1 2 3; do cargo nextest run --offline test_query_timer 2>&1 | grep -E "tests? run" | tail -1; done | grep -c " 1 passed")
  if [ "$R" -ge 1 ]; then OTHER=""; echo "(test_query_timer failed under load, passed $R/3 alone)"; fi
fi
git checkout -q -- . ; rm -f tests/seed_demo.rs
echo "clean demo: $A"
echo "patched all: $B"
echo "failing: $(echo $FAILS | tr '\n' ' ')"
if echo "$A" | grep -q "failed"; then echo "NOT-CONFIRMED demo fails on the clean tree"; exit 1; fi
if [ -n "$OTHER" ]; then echo "NOT-CONFIRMED existing tests fail with the patch: $OTHER"; exit 1; fi
if [ "$DEMOFAIL" = "0" ]; then echo "NOT-CONFIRMED demo does not fail with the patch"; exit 1; fi
echo CONFIRMED
