#!/usr/bin/env python3
"""Markdown table of the stored seeded changes: what each needs in order to manifest, and what the quick tier of
its property did with it in the last run of tools/seed_matrix.sh (work/seed_matrix.tsv, copied to seeded/MATRIX.tsv)."""
import json, os, sys, glob
V = os.path.dirname(os.path.dirname(os.path.abspath(__file__)))
rows = {}
mpath = os.path.join(V, "seeded", "MATRIX.tsv")
if os.path.exists(mpath):
    for l in open(mpath):
        f = l.rstrip("\n").split("\t")
        if len(f) >= 5: rows[f[0]] = f
print("| seeded change | property | needs, in order to manifest | quick tier of its property |")
print("|---|---|---|---|")
for d in sorted(glob.glob(os.path.join(V, "seeded", "C*"))):
    name = os.path.basename(d)
    try: m = json.load(open(os.path.join(d, "meta.json")))
    except Exception: continue
    need = " ".join(str(m.get("needs_to_manifest", "")).split())
    if len(need) > 230: need = need[:227] + "..."
    need = need.replace("|", "\\|")
    r = rows.get(name)
    res = "not run" if not r else ("reported (%s, %s)" % (r[4] or "violation", r[3]) if r[2] == "rc=1" else (("not reported - outside the property's stated domain, see meta.json" if m.get("outside_the_stated_domain") else "MISSED") if r[2] == "rc=0" else r[2]))
    print("| %s | %s | %s | %s |" % (name, m.get("property", "?"), need, res))
