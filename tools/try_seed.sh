#!/bin/bash
# Runs registered checks against a seeded change: apply it to /repo, run, undo straight afterwards.
# usage: try_seed.sh <seeded dir> <tier> <check id> [<check id> ...]
# prints one line per check: <dir> <id> rc=<exit code> <seconds>s
set -u
DIR="$(realpath "$1")"; TIER="$2"; shift 2
cd /verif || exit 3
if [ -n "$(git -C /repo status --porcelain --untracked-files=no)" ]; then echo "/repo has uncommitted changes; refusing"; exit 3; fi
if ! git -C /repo apply "$DIR/patch.diff" 2>/dev/null; then
  if ! git -C /repo apply --3way "$DIR/patch.diff" >/dev/null 2>&1; then echo "$DIR: patch does not apply"; git -C /repo checkout -- . ; git -C /repo reset -q; exit 2; fi
  git -C /repo reset -q
fi
for ID in "$@"; do
  T0=$(date +%s.%N)
  OUT=$(./check "$ID" --tier "$TIER" 2>&1)
  RC=$?
  T1=$(date +%s.%N)
  V=$(echo "$OUT" | grep -E "^VIOLATION" | head -1)
  K=$(echo "$OUT" | grep -E "^---- violation" | head -1)
  printf "%s %s rc=%d %.1fs %s %s\n" "$(basename $DIR)" "$ID" "$RC" "$(echo "$T1 - $T0" | bc)" "$K" "$V"
done
git -C /repo checkout -- .
rm -rf /verif/replays/*
