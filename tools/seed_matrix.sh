#!/bin/bash
# Sensitivity matrix: every stored seeded change against the quick tier of its property, in a scratch copy of
# /repo and /verif (so /repo itself is never touched and the registered checks are not disturbed).
# usage: seed_matrix.sh [<output tsv>] [<seeded dir> ...]     (default: all of /verif/seeded/*)
set -u
OUT="${1:-/verif/work/seed_matrix.tsv}"; shift || true
SCR=/tmp/matrix
export CARGO_NET_OFFLINE=true
rm -rf "$SCR"; mkdir -p "$SCR"
git -C /repo worktree prune
git -C /repo worktree add -q --detach "$SCR/repo" HEAD || exit 3
cp /repo/Cargo.lock "$SCR/repo/"
rsync -a --exclude work --exclude .git --exclude fuzz /verif/ "$SCR/verif/"
sed -i "s|path = \"/repo\"|path = \"$SCR/repo\"|" "$SCR/verif/harness/Cargo.toml"
sed -i "s|/verif/work/target|$SCR/verif/work/target|" "$SCR/verif/harness/.cargo/config.toml"
DIRS=("$@"); if [ ${#DIRS[@]} -eq 0 ]; then DIRS=(/verif/seeded/*); fi
: > "$OUT"
cd "$SCR/verif" && ./check build >/dev/null 2>&1
for D in "${DIRS[@]}"; do
  D=$(realpath "$D"); ID=$(python3 -c "import json,sys; print(json.load(open('$D/meta.json'))['property'])")
  if ! git -C "$SCR/repo" apply "$D/patch.diff" 2>/dev/null; then
    if ! git -C "$SCR/repo" apply --3way "$D/patch.diff" >/dev/null 2>&1; then printf "%s\t%s\tno-apply\t-\t-\n" "$(basename $D)" "$ID" >> "$OUT"; git -C "$SCR/repo" reset -q --hard; continue; fi
    git -C "$SCR/repo" reset -q
  fi
  T0=$(date +%s)
  O=$(VERIF_SEED=${VERIF_SEED:-1} ./check "$ID" --tier quick 2>&1); RC=$?
  T1=$(date +%s)
  K=$(echo "$O" | grep -E "^---- violation" | head -1 | sed 's/^---- violation (\(.*\)) ----.*/\1/' | cut -c1-80)
  printf "%s\t%s\trc=%d\t%ds\t%s\n" "$(basename $D)" "$ID" "$RC" "$((T1-T0))" "$K" >> "$OUT"
  git -C "$SCR/repo" reset -q --hard
done
git -C /repo worktree remove --force "$SCR/repo"; rm -rf "$SCR"
echo "matrix written to $OUT"
