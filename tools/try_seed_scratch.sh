#!/bin/bash
# Like try_seed.sh, but in a scratch copy of /repo (git worktree of HEAD) and of /verif's working tree, so that /repo
# itself is not touched (usable while other checks run against /repo).
# usage: try_seed_scratch.sh <seeded dir> <tier> <check id> [<check id> ...]
set -u
DIR="$(realpath "$1")"; TIER="$2"; shift 2
SCR=/tmp/scr
export CARGO_NET_OFFLINE=true
HEAD=$(git -C /repo rev-parse HEAD)
if [ ! -d "$SCR/repo" ] || [ "$(git -C "$SCR/repo" rev-parse HEAD 2>/dev/null)" != "$HEAD" ]; then
  git -C /repo worktree remove --force "$SCR/repo" 2>/dev/null; rm -rf "$SCR/repo"; mkdir -p "$SCR"
  git -C /repo worktree prune
  git -C /repo worktree add -q --detach "$SCR/repo" HEAD || exit 3
  cp /repo/Cargo.lock "$SCR/repo/"
fi
git -C "$SCR/repo" reset -q --hard
rsync -a --delete --exclude work --exclude .git --exclude fuzz /verif/ "$SCR/verif/"
sed -i "s|path = \"/repo\"|path = \"$SCR/repo\"|" "$SCR/verif/harness/Cargo.toml"
sed -i "s|/verif/work/target|$SCR/verif/work/target|" "$SCR/verif/harness/.cargo/config.toml"
if ! git -C "$SCR/repo" apply "$DIR/patch.diff" 2>/dev/null; then
  if ! git -C "$SCR/repo" apply --3way "$DIR/patch.diff" >/dev/null 2>&1; then echo "$DIR: patch does not apply"; git -C "$SCR/repo" reset -q --hard; exit 2; fi
  git -C "$SCR/repo" reset -q
fi
cd "$SCR/verif"
for ID in "$@"; do
  T0=$(date +%s.%N)
  OUT=$(./check "$ID" --tier "$TIER" 2>&1); RC=$?
  T1=$(date +%s.%N)
  V=$(echo "$OUT" | grep -E "^VIOLATION" | head -1)
  K=$(echo "$OUT" | grep -E "^---- violation" | head -1 | cut -c1-160)
  printf "%s %s rc=%d %.1fs %s %s\n" "$(basename $DIR)" "$ID" "$RC" "$(echo "$T1 - $T0" | bc)" "$K" "$V"
done
git -C "$SCR/repo" reset -q --hard
