//! A small recursive-descent parser for the harness's own AST (convenience for templates,
//! hand-written regression cases and replay files). It is NOT the engine's parser and is
//! never the subject of a check. Atoms here are `[A-Za-z0-9_]+` words (no inner spaces).

use crate::ast::*;

pub struct P<'a> { s: &'a [u8], i: usize }

const FUNCS: [&str; 5] = ["add", "subtract", "multiply", "divide", "join"];
const BUILTINS: [&str; 7] = ["append", "count", "include", "exclude", "functor", "print", "print_list"];

impl<'a> P<'a> {
    pub fn new(t: &'a str) -> Self { P { s: t.as_bytes(), i: 0 } }
    fn ws(&mut self) {
        loop {
            while self.i < self.s.len() && (self.s[self.i] as char).is_whitespace() { self.i += 1; }
            if self.i < self.s.len() && self.s[self.i] == b'%' {
                while self.i < self.s.len() && self.s[self.i] != b'\n' { self.i += 1; }
            } else { break; }
        }
    }
    fn peek(&mut self) -> Option<u8> { self.ws(); self.s.get(self.i).copied() }
    fn eat(&mut self, t: &str) -> bool {
        self.ws();
        if self.s[self.i..].starts_with(t.as_bytes()) { self.i += t.len(); true } else { false }
    }
    fn expect(&mut self, t: &str) -> Result<(), String> {
        if self.eat(t) { Ok(()) } else { Err(format!("expected `{}` at {}: {}", t, self.i, self.rest())) }
    }
    fn rest(&self) -> String { String::from_utf8_lossy(&self.s[self.i..self.s.len().min(self.i + 30)]).into_owned() }
    pub fn at_end(&mut self) -> bool { self.ws(); self.i >= self.s.len() }

    fn word(&mut self) -> Option<String> {
        self.ws();
        let st = self.i;
        while self.i < self.s.len() {
            let c = self.s[self.i] as char;
            if c.is_ascii_alphanumeric() || c == '_' { self.i += 1; } else { break; }
        }
        if self.i > st { Some(String::from_utf8_lossy(&self.s[st..self.i]).into_owned()) } else { None }
    }

    pub fn term(&mut self) -> Result<Term, String> {
        self.ws();
        match self.peek() {
            None => Err("unexpected end".into()),
            Some(b'$') => {
                self.i += 1;
                if self.s.get(self.i) == Some(&b'_') && !self.s.get(self.i + 1).map_or(false, |c| (*c as char).is_ascii_alphanumeric()) {
                    self.i += 1;
                    return Ok(Term::Anon);
                }
                let w = self.word().ok_or("variable name")?;
                Ok(Term::Var(format!("${}", w)))
            }
            Some(b'[') => {
                self.i += 1;
                let mut es = vec![];
                let mut tail = None;
                if self.eat("]") { return Ok(Term::List(es, None)); }
                loop {
                    es.push(self.term()?);
                    if self.eat(",") { continue; }
                    if self.eat("|") { tail = Some(Box::new(self.term()?)); }
                    self.expect("]")?;
                    break;
                }
                Ok(Term::List(es, tail))
            }
            Some(b'"') => {
                self.i += 1;
                let st = self.i;
                while self.i < self.s.len() && self.s[self.i] != b'"' { self.i += 1; }
                let w = String::from_utf8_lossy(&self.s[st..self.i]).into_owned();
                self.i += 1;
                Ok(Term::Atom(w))
            }
            Some(c) if c == b'-' || (c as char).is_ascii_digit() => {
                let st = self.i;
                if c == b'-' { self.i += 1; }
                while self.i < self.s.len() && (self.s[self.i] as char).is_ascii_digit() { self.i += 1; }
                let mut is_float = false;
                if self.i + 1 < self.s.len() && self.s[self.i] == b'.' && (self.s[self.i + 1] as char).is_ascii_digit() {
                    is_float = true;
                    self.i += 1;
                    while self.i < self.s.len() && (self.s[self.i] as char).is_ascii_digit() { self.i += 1; }
                }
                // a word starting with digits (e.g. 3x) is an atom
                if self.i < self.s.len() && ((self.s[self.i] as char).is_ascii_alphabetic() || self.s[self.i] == b'_') {
                    self.i = st;
                    let w = self.word().ok_or("atom")?;
                    return Ok(Term::Atom(w));
                }
                let txt = String::from_utf8_lossy(&self.s[st..self.i]).into_owned();
                if is_float { Ok(Term::Float(txt.parse::<f64>().map_err(|e| e.to_string())?)) }
                else { Ok(Term::Int(txt.parse::<i64>().map_err(|e| e.to_string())?)) }
            }
            Some(_) => {
                let w = self.word().ok_or_else(|| format!("term expected at {}", self.rest()))?;
                if self.s.get(self.i) == Some(&b'(') {
                    self.i += 1;
                    let mut args = vec![];
                    if !self.eat(")") {
                        loop {
                            args.push(self.term()?);
                            if self.eat(",") { continue; }
                            self.expect(")")?;
                            break;
                        }
                    }
                    if FUNCS.contains(&w.as_str()) { Ok(Term::Func(w, args)) } else { Ok(Term::Cmp(w, args)) }
                } else { Ok(Term::Atom(w)) }
            }
        }
    }

    fn item(&mut self) -> Result<Goal, String> {
        self.ws();
        if self.eat("(") {
            let g = self.body()?;
            self.expect(")")?;
            return Ok(g);
        }
        if self.eat("!") { return Ok(Goal::Cut); }
        let save = self.i;
        if self.s[self.i..].starts_with(b"not(") {
            self.i += 4;
            let g = self.body()?;
            self.expect(")")?;
            return Ok(Goal::Not(Box::new(g)));
        }
        let t = self.term()?;
        // infix?
        for (txt, op) in [("==", Some(CmpOp::Eq)), ("<=", Some(CmpOp::Le)), (">=", Some(CmpOp::Ge)), ("<", Some(CmpOp::Lt)), (">", Some(CmpOp::Gt)), ("=", None)] {
            if self.eat(txt) {
                let r = self.term()?;
                return Ok(match op { Some(o) => Goal::Compare(o, t, r), None => Goal::Unify(t, r) });
            }
        }
        match t {
            Term::Atom(w) if w == "fail" => Ok(Goal::Fail),
            Term::Atom(w) if w == "nl" => Ok(Goal::Nl),
            Term::Atom(w) => Ok(Goal::Call(w, vec![])),
            Term::Cmp(f, a) => {
                if BUILTINS.contains(&f.as_str()) { return Ok(Goal::BuiltIn(f, a)); }
                for o in CmpOp::ALL { if o.functor() == f && a.len() == 2 { return Ok(Goal::Compare(o, a[0].clone(), a[1].clone())); } }
                Ok(Goal::Call(f, a))
            }
            other => { self.i = save; Err(format!("not a goal: {}", other)) }
        }
    }

    fn conj(&mut self) -> Result<Goal, String> {
        let mut v = vec![self.item()?];
        while self.eat(",") { v.push(self.item()?); }
        Ok(if v.len() == 1 { v.pop().unwrap() } else { Goal::And(v) })
    }

    pub fn body(&mut self) -> Result<Goal, String> {
        let mut v = vec![self.conj()?];
        while self.eat(";") { v.push(self.conj()?); }
        Ok(if v.len() == 1 { v.pop().unwrap() } else { Goal::Or(v) })
    }

    pub fn clause(&mut self) -> Result<Clause, String> {
        let h = self.term()?;
        let (name, args) = match h { Term::Cmp(f, a) => (f, a), Term::Atom(f) => (f, vec![]), o => return Err(format!("bad head {}", o)) };
        let body = if self.eat(":-") { Some(self.body()?) } else { None };
        self.expect(".")?;
        Ok(Clause { name, args, body })
    }
}

/// `clauses...  ?- query.`
pub fn parse_program(text: &str) -> Result<Program, String> {
    let mut p = P::new(text);
    let mut clauses = vec![];
    loop {
        if p.at_end() { return Err("missing ?- query".into()); }
        if p.eat("?-") {
            let t = p.term()?;
            let _ = p.eat(".");
            let (qname, qargs) = match t { Term::Cmp(f, a) => (f, a), Term::Atom(f) => (f, vec![]), o => return Err(format!("bad query {}", o)) };
            return Ok(Program { clauses, qname, qargs });
        }
        clauses.push(p.clause()?);
    }
}

pub fn parse_term_ast(text: &str) -> Result<Term, String> {
    let mut p = P::new(text);
    let t = p.term()?;
    if !p.at_end() { return Err(format!("trailing text: {}", p.rest())); }
    Ok(t)
}

pub fn parse_clauses(text: &str) -> Vec<Clause> {
    let mut p = P::new(text);
    let mut v = vec![];
    while !p.at_end() { v.push(p.clause().unwrap_or_else(|e| panic!("harness template does not parse: {}", e))); }
    v
}
