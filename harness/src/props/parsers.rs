//! C18–C21: the text front end. Crash oracle (C18), print/parse round trip against the
//! bridge-built value (C19), context independence (C20), file loading vs rule-by-rule
//! parsing (C21).

use crate::ast::*;
use crate::bridge::*;
use crate::choice::*;
use crate::driver::*;
use crate::engine::*;
use crate::render::{self, Style, CANON};
use crate::report::*;
use serde_json::json;
use suiron::Unifiable as U;

#[derive(Clone, Copy, PartialEq, Debug)]
pub enum PAspect { NoPanic, RoundTrip, Context, File }

pub struct ParserProp { pub id: &'static str, pub aspect: PAspect }

fn fail(id: &str, kind: &str, msg: String, case: String) -> CaseResult {
    CaseResult::Fail(Failure { kind: kind.to_string(), signature: format!("{}:{}", id, kind), message: msg, case })
}

// ------------------------------------------------------------------ canonical grammar

const CATOMS: [&str; 14] = ["a", "b", "foo", "Harold II", "x1", "ünï", "snake_case", "well-known", "The Beaver", "A", "Zeta 9", "mother", "_", "Δ"];
const FUNCTORS: [&str; 8] = ["f", "g", "foo", "bar", "p", "q", "link", "symptom"];
const CFLOATS: [&str; 10] = ["0.5", "1.25", "3.14159", "12.375", "100.001", "0.000123", "-2.5", "-0.75", "123456.789", "2.75"];
const CINTS: [i64; 9] = [0, 1, 7, 42, -1, -15, 1000000, i64::MAX, -9000000000];
const CVARS: [&str; 6] = ["$X", "$Y", "$Abc1", "$Tail", "$Ü", "$In_2x"];

// Generated lexemes (half of the draws; the other half come from the fixed pools above).
const LETTERS: [char; 30] = ['a', 'b', 'e', 'k', 'm', 'n', 'o', 's', 't', 'x', 'z', 'A', 'C', 'H', 'N', 'T', 'Z', 'é', 'ü', 'ñ', 'Δ', 'λ', 'Я', 'ж', 'e', 'i', 'r', 'l', 'd', 'q'];
const RESERVED: [&str; 30] = ["not", "time", "fail", "nl", "print", "print_list", "append", "count", "include", "exclude", "functor", "add", "subtract", "multiply", "divide", "join",
    "equal", "less_than", "less_than_or_equal", "greater_than", "greater_than_or_equal", "unify", "e", "E", "inf", "nan", "NaN", "infinity", "Infinity", "INF"];

/// An atom of the documented shape: letters, digits, `_`, with single inner blanks or hyphens between words.
fn gen_atom(s: &mut dyn Src) -> String {
    let words = 1 + weighted(s, &[6, 2, 1]);
    let mut out = String::new();
    for w in 0..words {
        if w > 0 { out.push(if chance(s, 1, 3) { '-' } else { ' ' }); }
        let n = 1 + s.draw(6);
        for i in 0..n {
            let c = match weighted(s, &[8, if i > 0 || w > 0 { 2 } else { 0 }, if i > 0 { 1 } else { 0 }]) { 0 => pick(s, &LETTERS), 1 => char::from(b'0' + s.draw(10) as u8), _ => '_' };
            out.push(c);
        }
    }
    if RESERVED.contains(&out.as_str()) { out.push('x'); }
    out
}

/// A functor / predicate name: the pool, or (1 in 3) a generated one - a letter followed by letters, digits and `_`,
/// ending in a digit half of the time (edge1, level0, p2p, a_b3).
fn gen_functor(s: &mut dyn Src) -> String {
    if !chance(s, 1, 3) { return pick(s, &FUNCTORS).to_string(); }
    let n = s.draw(6);
    let mut out = String::new();
    out.push(pick(s, &['a', 'e', 'k', 'm', 'p', 'q', 'z', 'N', 'T', 'é', 'λ']));
    for _ in 0..n { out.push(match weighted(s, &[6, 2, 1]) { 0 => pick(s, &LETTERS), 1 => char::from(b'0' + s.draw(10) as u8), _ => '_' }); }
    if chance(s, 1, 2) { out.push(char::from(b'0' + s.draw(10) as u8)); }
    if RESERVED.contains(&out.as_str()) || crate::render::RESERVED.contains(&out.as_str()) { out.push('x'); }
    out
}

fn gen_varname(s: &mut dyn Src) -> String {
    let n = 1 + s.draw(6);
    let mut out = String::from("$");
    for i in 0..n {
        let c = match weighted(s, &[8, if i > 0 { 2 } else { 0 }, if i > 0 { 1 } else { 0 }]) { 0 => pick(s, &LETTERS), 1 => char::from(b'0' + s.draw(10) as u8), _ => '_' };
        out.push(c);
    }
    out
}

fn gen_int(s: &mut dyn Src) -> i64 {
    let digits = 1 + s.draw(18);
    let mut v: i64 = 0;
    for i in 0..digits { let d = if i == 0 { 1 + s.draw(9) } else { s.draw(10) } as i64; v = v * 10 + d; }
    if chance(s, 1, 3) { -v } else { v }
}

/// A float whose shortest round-trip text is the text it was written with: no leading or trailing zeros,
/// a non-zero fractional part, at most 15 significant digits.
fn gen_float(s: &mut dyn Src) -> f64 {
    let ni = 1 + s.draw(7);
    let nf = 1 + s.draw(7);
    let mut t = String::new();
    if chance(s, 1, 3) { t.push('-'); }
    if chance(s, 1, 5) { t.push('0'); } else { for i in 0..ni { t.push(char::from(b'0' + if i == 0 { 1 + s.draw(9) } else { s.draw(10) } as u8)); } }
    t.push('.');
    for i in 0..nf { t.push(char::from(b'0' + if i == nf - 1 { 1 + s.draw(9) } else { s.draw(10) } as u8)); }
    t.parse::<f64>().unwrap()
}

/// Sizes: usually small (lists of 0-3, arity 0-4, 2-3 operands); one time in twelve large (lists up to 30
/// elements, arity up to 12, conjunctions / disjunctions of up to 9 goals), so that nothing in the text front end
/// is only ever seen with a handful of arguments.
fn size(s: &mut dyn Src, small: u32, large: u32) -> u32 { if chance(s, 1, 12) { s.draw(large) } else { s.draw(small) } }

fn c_term(s: &mut dyn Src, depth: u32) -> Term {
    let deep = depth < 2;
    match weighted(s, &[5, 3, 2, 4, 1, if deep { 3 } else { 0 }, if deep { 3 } else { 0 }]) {
        0 => if chance(s, 1, 2) { Term::Atom(gen_atom(s)) } else { Term::atom(pick(s, &CATOMS)) },
        1 => if chance(s, 1, 2) { Term::Int(gen_int(s)) } else { Term::Int(pick(s, &CINTS)) },
        2 => if chance(s, 1, 2) { Term::Float(gen_float(s)) } else { Term::Float(pick(s, &CFLOATS).parse::<f64>().unwrap()) },
        3 => if chance(s, 1, 3) { Term::Var(gen_varname(s)) } else { Term::var(pick(s, &CVARS)) },
        4 => Term::Anon,
        5 => {
            let n = size(s, 4, 31) as usize;
            let es: Vec<Term> = (0..n).map(|_| c_term(s, depth + 1)).collect();
            let tail = if n > 0 { match s.draw(4) { 0 => Some(Box::new(Term::var(pick(s, &CVARS)))), 1 => Some(Box::new(Term::Anon)), _ => None } } else { None };
            Term::List(es, tail)
        }
        _ => {
            let n = size(s, 5, 13) as usize;
            Term::Cmp(gen_functor(s), (0..n).map(|_| c_term(s, depth + 1)).collect())
        }
    }
}

fn c_func(s: &mut dyn Src) -> Term {
    let simple = |s: &mut dyn Src| -> Term { match s.draw(3) { 0 => Term::var(pick(s, &CVARS)), 1 => Term::Int(pick(s, &CINTS)), _ => Term::Float(pick(s, &CFLOATS).parse::<f64>().unwrap()) } };
    if chance(s, 1, 5) {
        let n = 1 + s.draw(3) as usize;
        Term::Func("join".into(), (0..n).map(|_| match s.draw(3) { 0 => Term::var(pick(s, &CVARS)), 1 => Term::atom(pick(s, &CATOMS)), _ => Term::List(vec![Term::atom("x"), Term::atom("y")], None) }).collect())
    } else {
        let n = 2 + size(s, 2, 7) as usize;
        Term::Func(pick(s, &["add", "subtract", "multiply", "divide"]).to_string(), (0..n).map(|_| simple(s)).collect())
    }
}

fn c_leaf(s: &mut dyn Src) -> Goal {
    match weighted(s, &[6, 4, 3, 4, 1, 1, 1]) {
        0 => { let n = size(s, 4, 13) as usize; Goal::Call(gen_functor(s), (0..n).map(|_| c_term(s, 1)).collect()) }
        1 => if chance(s, 1, 3) { Goal::Unify(Term::var(pick(s, &CVARS)), c_func(s)) } else { Goal::Unify(c_term(s, 1), c_term(s, 1)) },
        2 => { let op = pick(s, &CmpOp::ALL); let r = if chance(s, 1, 4) { c_func(s) } else { c_term(s, 2) }; Goal::Compare(op, c_term(s, 2), r) }
        3 => match s.draw(7) {
            0 => Goal::BuiltIn("append".into(), (0..(2 + size(s, 3, 9))).map(|_| c_term(s, 1)).collect()),
            1 => Goal::BuiltIn("count".into(), vec![c_term(s, 1), Term::var(pick(s, &CVARS))]),
            2 => Goal::BuiltIn("include".into(), vec![c_term(s, 1), c_term(s, 1), Term::var(pick(s, &CVARS))]),
            3 => Goal::BuiltIn("exclude".into(), vec![c_term(s, 1), c_term(s, 1), Term::var(pick(s, &CVARS))]),
            4 => { let mut a = vec![c_term(s, 1), c_term(s, 2)]; if chance(s, 1, 2) { a.push(c_term(s, 2)); } Goal::BuiltIn("functor".into(), a) }
            5 => Goal::BuiltIn("print".into(), (0..(1 + size(s, 3, 9))).map(|_| c_term(s, 1)).collect()),
            _ => Goal::BuiltIn("print_list".into(), vec![c_term(s, 1)]),
        },
        4 => Goal::Nl,
        5 => Goal::Cut,
        _ => Goal::Fail,
    }
}

fn c_goal(s: &mut dyn Src, depth: u32) -> Goal {
    match weighted(s, &[8, if depth < 3 { 3 } else { 0 }, if depth < 3 { 3 } else { 0 }, 1, 1]) {
        0 => c_leaf(s),
        1 => { let n = 2 + size(s, 2, 8); Goal::And((0..n).map(|_| c_goal(s, depth + 1)).collect()) }
        2 => { let n = 2 + size(s, 2, 8); Goal::Or((0..n).map(|_| c_goal(s, depth + 1)).collect()) }
        3 => Goal::Not(Box::new(c_simple(s))),
        _ => Goal::Time(Box::new(c_simple(s))),
    }
}

/// What can stand inside not(...) / time(...) in source text: a single call.
fn c_simple(s: &mut dyn Src) -> Goal {
    let n = s.draw(3) as usize;
    Goal::Call(gen_functor(s), (0..n).map(|_| c_term(s, 2)).collect())
}

fn c_clause(s: &mut dyn Src) -> Clause {
    let n = size(s, 4, 13) as usize;
    let name = if chance(s, 1, 12) { format!("{}_{}", pick(s, &FUNCTORS), "abcdefghij".repeat(1 + s.draw(4) as usize)) } else { gen_functor(s) };
    let args: Vec<Term> = (0..n).map(|_| c_term(s, 1)).collect();
    let body = if chance(s, 2, 5) { None } else { Some(c_goal(s, 1)) };
    Clause { name, args, body }
}

fn goal_features(g: &Goal, rep: &mut Report) -> bool {
    let nested = g.any(&|x| match x { Goal::And(gs) | Goal::Or(gs) => gs.iter().any(|y| matches!(y, Goal::And(_) | Goal::Or(_))), _ => false });
    if nested { rep.class("nested-operator-goal"); }
    let mut ts = vec![]; g.terms(&mut ts);
    let zero = g.any(&|x| matches!(x, Goal::Call(_, a) if a.is_empty())) || ts.iter().any(has_zero_arity);
    if zero { rep.class("zero-arity-term"); }
    let neg = ts.iter().any(has_negative);
    if neg { rep.class("negative-number"); }
    let fl = ts.iter().any(has_float);
    if fl { rep.class("float"); }
    let tl = ts.iter().any(has_tail);
    if tl { rep.class("list-with-tail"); }
    nested || zero || neg || fl || tl
}
fn has_zero_arity(t: &Term) -> bool { match t { Term::Cmp(_, a) => a.is_empty() || a.iter().any(has_zero_arity), Term::List(es, _) => es.iter().any(has_zero_arity), Term::Func(_, a) => a.iter().any(has_zero_arity), _ => false } }
fn has_negative(t: &Term) -> bool { match t { Term::Int(i) => *i < 0, Term::Float(f) => *f < 0.0, Term::Cmp(_, a) | Term::Func(_, a) => a.iter().any(has_negative), Term::List(es, _) => es.iter().any(has_negative), _ => false } }
fn has_float(t: &Term) -> bool { match t { Term::Float(_) => true, Term::Cmp(_, a) | Term::Func(_, a) => a.iter().any(has_float), Term::List(es, _) => es.iter().any(has_float), _ => false } }
fn has_tail(t: &Term) -> bool { match t { Term::List(es, tl) => tl.is_some() || es.iter().any(has_tail), Term::Cmp(_, a) | Term::Func(_, a) => a.iter().any(has_tail), _ => false } }

/// The parsers reject complex terms, goals and rules longer than 1000 bytes ("String is too long" - documented in
/// validate_complex). Generated text stays well below, so that no variant or context of it crosses the limit.
const TEXT_LIMIT: usize = 800;
const TOO_LONG: &str = "text longer than the parsers' documented 1000-byte limit";

type PR<T> = Result<Result<T, String>, EngineFail>;

fn parse_guard<T>(f: impl FnOnce() -> Result<T, String>) -> PR<T> { guarded(u64::MAX, f) }

// ------------------------------------------------------------------ C19

impl ParserProp {
    fn roundtrip_term(&self, t: &Term, rep: &mut Report) -> CaseResult {
        let c = render::term(t, &CANON);
        if c.len() > TEXT_LIMIT { return CaseResult::Discard(TOO_LONG.into()); }
        let want = to_engine(t, &Ids::Zero);
        let variants: Vec<(String, &str)> = vec![(c.clone(), "canonical"), (render::term(t, &Style { tight_commas: true, ..CANON }), "tight-commas"),
                                                 (render::term(t, &Style { quote_atoms: true, ..CANON }), "quoted-atoms"), (format!("  {} ", c), "padded")];
        for (text, what) in &variants {
            let u = match parse_guard(|| suiron::parse_term(text)) {
                Ok(Ok(u)) => u,
                Ok(Err(e)) => return fail(self.id, "rejected", format!("parse_term({:?}) [{}] -> Err({})", text, what, e), c),
                Err(f) => return fail(self.id, "parser-panic", format!("parse_term({:?}) [{}]: {:?}", text, what, f), c),
            };
            if u != want { return fail(self.id, "wrong-value", format!("parse_term({:?}) [{}] = {:?}\nexpected {:?}", text, what, u, want), c); }
            if *what == "canonical" {
                let d = format!("{}", u);
                if d != c { return fail(self.id, "display-differs", format!("Display gives {:?}, canonical text is {:?}", d, c), c); }
            }
        }
        let mut ts = vec![t.clone()];
        let g = Goal::Call("x".into(), std::mem::take(&mut ts));
        if goal_features(&g, rep) { rep.nontrivial(fnv(&c)); rep.sample(json!({"term": c})); }
        CaseResult::Pass
    }

    fn roundtrip_goal(&self, g: &Goal, rep: &mut Report) -> CaseResult {
        let c = render::goal(g, &CANON);
        if c.len() > TEXT_LIMIT { return CaseResult::Discard(TOO_LONG.into()); }
        let want = goal_to_engine(g, &Ids::Zero);
        let is_leaf = !matches!(g, Goal::And(_) | Goal::Or(_));
        let styles: Vec<(Style, &str)> = vec![(CANON, "canonical"), (Style { infix_compare: true, ..CANON }, "infix-compare"), (Style { infix_arith: true, infix_compare: true, ..CANON }, "infix-arith"),
            (Style { bare_zero_arity: true, ..CANON }, "bare-zero-arity"), (Style { redundant_parens: true, ..CANON }, "redundant-parens"), (Style { tight_commas: true, ..CANON }, "tight-commas")];
        for (st, what) in &styles {
            let text = render::goal(g, st);
            if *what != "canonical" && text == c { continue; }
            // infix arithmetic is only documented as operand of = / comparison, with simple operands
            if *what == "infix-arith" && !infix_arith_ok(g) { continue; }
            let entries: Vec<&str> = if is_leaf { vec!["parse_subgoal", "generate_goal"] } else { vec!["generate_goal"] };
            for entry in entries {
                let r = if entry == "parse_subgoal" { parse_guard(|| suiron::parse_subgoal(&text)) } else { parse_guard(|| suiron::generate_goal(&text)) };
                let u = match r {
                    Ok(Ok(u)) => u,
                    Ok(Err(e)) => return fail(self.id, "rejected", format!("{}({:?}) [{}] -> Err({})", entry, text, what, e), c),
                    Err(f) => return fail(self.id, "parser-panic", format!("{}({:?}) [{}]: {:?}", entry, text, what, f), c),
                };
                if u != want { return fail(self.id, "wrong-value", format!("{}({:?}) [{}] = {}\n   debug: {:?}\nexpected value of: {}\n   debug: {:?}", entry, text, what, u, u, c, want), c); }
                if *what == "canonical" {
                    let d = format!("{}", u);
                    if d != c { return fail(self.id, "display-differs", format!("Display gives {:?}, canonical text is {:?}", d, c), c); }
                }
            }
        }
        if goal_features(g, rep) { rep.nontrivial(fnv(&c)); rep.sample(json!({"goal": c})); }
        CaseResult::Pass
    }

    fn roundtrip_clause(&self, cl: &Clause, rep: &mut Report) -> CaseResult {
        let c = render::clause(cl, &CANON);
        if c.len() > TEXT_LIMIT { return CaseResult::Discard(TOO_LONG.into()); }
        let want_head = to_engine(&Term::Cmp(cl.name.clone(), cl.args.clone()), &Ids::Zero);
        let want_body = cl.body.as_ref().map(|b| goal_to_engine(b, &Ids::Zero)).unwrap_or(suiron::Goal::Nil);
        for (st, what) in [(CANON, "canonical"), (Style { bare_zero_arity: true, ..CANON }, "bare-zero-arity"), (Style { infix_compare: true, ..CANON }, "infix-compare")] {
            let text = render::clause(cl, &st);
            if what != "canonical" && text == c { continue; }
            let r = match parse_guard(|| suiron::parse_rule(&text)) {
                Ok(Ok(u)) => u,
                Ok(Err(e)) => return fail(self.id, "rejected", format!("parse_rule({:?}) [{}] -> Err({})", text, what, e), c),
                Err(f) => return fail(self.id, "parser-panic", format!("parse_rule({:?}) [{}]: {:?}", text, what, f), c),
            };
            if r.head != want_head || r.body != want_body {
                return fail(self.id, "wrong-value", format!("parse_rule({:?}) [{}] = {}\nexpected the value of {}", text, what, r, c), c);
            }
            if what == "canonical" {
                let d = format!("{}", r);
                if d != c { return fail(self.id, "display-differs", format!("Display gives {:?}, canonical text is {:?}", d, c), c); }
            }
        }
        let g = cl.body.clone().unwrap_or(Goal::Call(cl.name.clone(), cl.args.clone()));
        let mut interesting = goal_features(&g, rep);
        if cl.args.is_empty() { rep.class("zero-arity-head"); interesting = true; }
        if cl.body.is_none() { rep.class("fact"); }
        if interesting { rep.nontrivial(fnv(&c)); rep.sample(json!({"rule": c})); }
        CaseResult::Pass
    }
}

fn infix_arith_ok(g: &Goal) -> bool {
    // binary arithmetic with simple operands only appears as the right operand
    let simple = |t: &Term| matches!(t, Term::Var(_) | Term::Int(_) | Term::Float(_));
    let ok_fun = |t: &Term| match t { Term::Func(n, a) => n != "join" && a.len() == 2 && a.iter().all(simple), _ => true };
    match g {
        Goal::Unify(a, b) | Goal::Compare(_, a, b) => !matches!(a, Term::Func(..)) && ok_fun(b),
        Goal::And(gs) | Goal::Or(gs) => gs.iter().all(infix_arith_ok),
        _ => true,
    }
}

// ------------------------------------------------------------------ C20

const SPECIAL_TEXTS: [&str; 19] = ["-5", "+5", "-2.5", "+0.25", "-0", "\\,", "?", "!", ".", "-", "007", "1.", "x-1", "a.b", "\\;", "\\|", "\\.", "\\!", "\\?"];

/// Signed-number text (the domain C20 names): optional sign, 1-20 digits (so beyond i64 too, and
/// with leading zeros), optional fraction of 1-6 digits.  Shapes that are not numbers in the C19
/// grammar (`-.0`, `1e5`, `5-`, `1.2.3`) are outside the property's quantifier and not generated.
fn numeric_text(s: &mut dyn Src) -> String {
    let digits = |s: &mut dyn Src, max: u32| -> String {
        let n = 1 + s.draw(max);
        (0..n).map(|i| if i == 0 && chance(s, 1, 6) { '0' } else { char::from(b'0' + s.draw(10) as u8) }).collect()
    };
    let sign = match weighted(s, &[3, 3, 2]) { 0 => "", 1 => "-", _ => "+" };
    if chance(s, 1, 2) {
        let len = if chance(s, 1, 4) { 20 } else { 6 };
        format!("{}{}", sign, digits(s, len))
    } else {
        format!("{}{}.{}", sign, digits(s, 6), digits(s, 6))
    }
}

fn decode_plain(u: &U) -> Term { let mut sh = Shape::default(); strip_ids(&from_engine(u, &mut sh)) }

impl ParserProp {
    fn context(&self, s: &mut dyn Src, rep: &mut Report) -> CaseResult {
        let (text, special) = match weighted(s, &[1, 3, 4]) {
            0 => (pick(s, &SPECIAL_TEXTS).to_string(), true),
            1 => { rep.class("generated-number"); (numeric_text(s), true) }
            _ => (render::term(&c_term(s, 0), &CANON), false),
        };
        if text.len() > TEXT_LIMIT { return CaseResult::Discard(TOO_LONG.into()); }
        let case = text.clone();
        type Getter = Box<dyn Fn(&str) -> Result<U, String>>;
        let arg0 = |g: suiron::Goal, i: usize| -> Result<U, String> {
            match g {
                suiron::Goal::ComplexGoal(U::SComplex(v)) => v.get(i + 1).cloned().ok_or("missing argument".to_string()),
                suiron::Goal::BuiltInGoal(b) => b.terms.and_then(|t| t.get(i).cloned()).ok_or("missing argument".to_string()),
                other => Err(format!("unexpected goal {}", other)),
            }
        };
        let contexts: Vec<(&str, String, Getter)> = vec![
            ("alone", "{}".into(), Box::new(|t| suiron::parse_term(t))),
            ("argument of a complex term", "f({})".into(), Box::new(|t| suiron::parse_complex(t).and_then(|u| match u { U::SComplex(v) => v.get(1).cloned().ok_or("no arg".to_string()), o => Err(format!("{}", o)) }))),
            ("second argument", "f(a, {})".into(), Box::new(|t| suiron::parse_complex(t).and_then(|u| match u { U::SComplex(v) => v.get(2).cloned().ok_or("no arg".to_string()), o => Err(format!("{}", o)) }))),
            ("argument of a goal", "g({})".into(), Box::new(move |t| suiron::parse_subgoal(t).and_then(|g| arg0(g, 0)))),
            ("argument of a built-in", "print({})".into(), Box::new(move |t| suiron::parse_subgoal(t).and_then(|g| arg0(g, 0)))),
            ("list element", "[{}]".into(), Box::new(|t| suiron::parse_linked_list(t).and_then(|u| match u { U::SLinkedList { term, .. } => Ok(*term), o => Err(format!("{}", o)) }))),
            ("second list element", "[a, {}]".into(), Box::new(|t| suiron::parse_linked_list(t).and_then(|u| match u { U::SLinkedList { next, .. } => match *next { U::SLinkedList { term, .. } => Ok(*term), o => Err(format!("{}", o)) }, o => Err(format!("{}", o)) }))),
            ("nested list element", "[[{}]]".into(), Box::new(|t| suiron::parse_linked_list(t).and_then(|u| match u { U::SLinkedList { term, .. } => match *term { U::SLinkedList { term, .. } => Ok(*term), o => Err(format!("{}", o)) }, o => Err(format!("{}", o)) }))),
            ("left operand of =", "{} = $Zz".into(), Box::new(move |t| suiron::parse_subgoal(t).and_then(|g| arg0(g, 0)))),
            ("right operand of =", "$Zz = {}".into(), Box::new(move |t| suiron::parse_subgoal(t).and_then(|g| arg0(g, 1)))),
            ("left operand of <", "{} < $Zz".into(), Box::new(move |t| suiron::parse_subgoal(t).and_then(|g| arg0(g, 0)))),
            ("right operand of >=", "$Zz >= {}".into(), Box::new(move |t| suiron::parse_subgoal(t).and_then(|g| arg0(g, 1)))),
            ("query argument", "q({})".into(), Box::new(move |t| suiron::parse_query(t).and_then(|g| arg0(g, 0)))),
            ("fact argument", "q({}).".into(), Box::new(|t| suiron::parse_rule(t).and_then(|r| match r.head { U::SComplex(v) => v.get(1).cloned().ok_or("no arg".to_string()), o => Err(format!("{}", o)) }))),
            // the same positions with other legal spacing: no blank after the comma, blanks / a tab around the term
            ("second argument, no blank after the comma", "f(a,{})".into(), Box::new(|t| suiron::parse_complex(t).and_then(|u| match u { U::SComplex(v) => v.get(2).cloned().ok_or("no arg".to_string()), o => Err(format!("{}", o)) }))),
            ("first of two arguments, no blanks", "f({},a)".into(), Box::new(|t| suiron::parse_complex(t).and_then(|u| match u { U::SComplex(v) => v.get(1).cloned().ok_or("no arg".to_string()), o => Err(format!("{}", o)) }))),
            ("third argument, no blanks", "f(a,b,{})".into(), Box::new(|t| suiron::parse_complex(t).and_then(|u| match u { U::SComplex(v) => v.get(3).cloned().ok_or("no arg".to_string()), o => Err(format!("{}", o)) }))),
            ("argument with blanks around it", "f( {} )".into(), Box::new(|t| suiron::parse_complex(t).and_then(|u| match u { U::SComplex(v) => v.get(1).cloned().ok_or("no arg".to_string()), o => Err(format!("{}", o)) }))),
            ("second argument after two blanks", "f(a,  {})".into(), Box::new(|t| suiron::parse_complex(t).and_then(|u| match u { U::SComplex(v) => v.get(2).cloned().ok_or("no arg".to_string()), o => Err(format!("{}", o)) }))),
            ("second argument after a tab", "f(a,\t{})".into(), Box::new(|t| suiron::parse_complex(t).and_then(|u| match u { U::SComplex(v) => v.get(2).cloned().ok_or("no arg".to_string()), o => Err(format!("{}", o)) }))),
            ("second goal argument, no blank", "g(a,{})".into(), Box::new(move |t| suiron::parse_subgoal(t).and_then(|g| arg0(g, 1)))),
            ("second built-in argument, no blank", "print(a,{})".into(), Box::new(move |t| suiron::parse_subgoal(t).and_then(|g| arg0(g, 1)))),
            ("second query argument, no blank", "q(a,{})".into(), Box::new(move |t| suiron::parse_query(t).and_then(|g| arg0(g, 1)))),
            ("second fact argument, no blank", "q(a,{}).".into(), Box::new(|t| suiron::parse_rule(t).and_then(|r| match r.head { U::SComplex(v) => v.get(2).cloned().ok_or("no arg".to_string()), o => Err(format!("{}", o)) }))),
            ("second list element, no blank", "[a,{}]".into(), Box::new(|t| suiron::parse_linked_list(t).and_then(|u| match u { U::SLinkedList { next, .. } => match *next { U::SLinkedList { term, .. } => Ok(*term), o => Err(format!("{}", o)) }, o => Err(format!("{}", o)) }))),
            ("list element with blanks around it", "[ {} ]".into(), Box::new(|t| suiron::parse_linked_list(t).and_then(|u| match u { U::SLinkedList { term, .. } => Ok(*term), o => Err(format!("{}", o)) }))),
            ("list element before a tail variable", "[{} | $Tt]".into(), Box::new(|t| suiron::parse_linked_list(t).and_then(|u| match u { U::SLinkedList { term, .. } => Ok(*term), o => Err(format!("{}", o)) }))),
            ("argument of a function", "$Zz = add({}, 1)".into(), Box::new(move |t| suiron::parse_subgoal(t).and_then(|g| arg0(g, 1)).and_then(|u| match u { U::SFunction { terms, .. } => terms.get(0).cloned().ok_or("no arg".to_string()), o => Err(format!("not a function: {}", o)) }))),
            ("second argument of a function, no blank", "$Zz = add(1,{})".into(), Box::new(move |t| suiron::parse_subgoal(t).and_then(|g| arg0(g, 1)).and_then(|u| match u { U::SFunction { terms, .. } => terms.get(1).cloned().ok_or("no arg".to_string()), o => Err(format!("not a function: {}", o)) }))),
            ("argument of a goal in a rule body", "h :- g(a, {}), k.".into(), Box::new(|t| suiron::parse_rule(t).and_then(|r| match r.body { suiron::Goal::OperatorGoal(suiron::Operator::And(gs)) => match gs.get(0) { Some(suiron::Goal::ComplexGoal(U::SComplex(v))) => v.get(2).cloned().ok_or("no arg".to_string()), _ => Err("unexpected body".to_string()) }, o => Err(format!("unexpected body {}", o)) }))),
            ("right operand of = in a rule body", "h :- $Zz = {}, k.".into(), Box::new(move |t| suiron::parse_rule(t).and_then(|r| match r.body { suiron::Goal::OperatorGoal(suiron::Operator::And(gs)) => match gs.get(0) { Some(g) => arg0(g.clone(), 1), None => Err("empty body".to_string()) }, o => Err(format!("unexpected body {}", o)) }))),
        ];
        let mut seen: Vec<(&str, Result<Term, String>)> = vec![];
        for (name, tmpl, get) in &contexts {
            let full = tmpl.replace("{}", &text);
            let r = match guarded(u64::MAX, || get(&full)) {
                Ok(r) => r.map(|u| decode_plain(&u)),
                Err(f) => return fail(self.id, "parser-panic", format!("{} ({:?}): {:?}", name, full, f), case),
            };
            seen.push((name, r));
        }
        // every context must agree with the first (alone)
        let base = &seen[0].1;
        for (name, r) in &seen[1..] {
            let same = match (base, r) { (Ok(a), Ok(b)) => a == b || (format!("{:?}", a) == format!("{:?}", b)), (Err(_), Err(_)) => true, _ => false };
            if !same {
                return fail(self.id, "context-dependent", format!("text {:?}: alone -> {:?}; as {} -> {:?}", text, base.as_ref().map(|t| format!("{:?}", t)), name, r.as_ref().map(|t| format!("{:?}", t))), case);
            }
        }
        rep.class(if special { "special-text" } else { "grammar-term" });
        rep.class(if base.is_ok() { "accepted" } else { "rejected-everywhere" });
        let first = text.chars().next().unwrap_or(' ');
        if special || first == '-' || first.is_ascii_digit() { rep.nontrivial(fnv(&text)); rep.sample(json!({"text": text, "value": base.as_ref().map(|t| format!("{:?}", t)).unwrap_or_else(|e| format!("Err({})", e))})); }
        CaseResult::Pass
    }

    // -------------------------------------------------------------- C18
    fn no_panic(&self, s: &mut dyn Src, rep: &mut Report) -> CaseResult {
        const ALPHA: [&str; 40] = ["(", ")", "[", "]", "|", ",", ";", ".", ":", "-", ":-", "=", "<", ">", "==", "<=", ">=", "+", "*", "/", "\\", "\"", "$", "_", "%", "#", " ", "  ", "a", "Z", "0", "9", "$X", "$_", "é", "Δ", "not(", "time(", "!", "\t"];
        let kind = weighted(s, &[6, 10, 6, 1]);
        let valid = |s: &mut dyn Src| -> String {
            match s.draw(4) {
                0 => render::term(&c_term(s, 0), &CANON),
                1 => render::goal(&c_goal(s, 1), &Style { infix_compare: chance(s, 1, 2), infix_arith: chance(s, 1, 2), ..CANON }),
                2 => render::clause(&c_clause(s), &CANON),
                _ => pick(s, &TEST_STRINGS).to_string(),
            }
        };
        let text = match kind {
            0 => valid(s),
            1 => {
                let mut chars: Vec<char> = valid(s).chars().collect();
                let n = 1 + s.draw(3);
                for _ in 0..n {
                    let len = chars.len() as u32;
                    match s.draw(5) {
                        0 if len > 0 => { let i = s.draw(len) as usize; chars.remove(i); }
                        1 if len > 0 => { let i = s.draw(len) as usize; let c = chars[i]; chars.insert(i, c); }
                        2 if len > 1 => { let i = s.draw(len - 1) as usize; chars.swap(i, i + 1); }
                        3 if len > 0 => { let i = s.draw(len) as usize; chars.truncate(i); }
                        _ => { let i = s.draw(len + 1) as usize; let ins: Vec<char> = pick(s, &ALPHA).chars().collect(); for (k, c) in ins.into_iter().enumerate() { chars.insert(i + k, c); } }
                    }
                }
                chars.into_iter().collect()
            }
            2 => { let n = s.draw(24); (0..n).map(|_| pick(s, &ALPHA)).collect::<Vec<_>>().join("") }
            _ => {
                // deep nesting (10-70 levels, text stays below the parsers' 1000-character limit): each level wraps the
                // text so far in one of the nesting constructs; a parser whose cost doubles per level never comes back
                let depth = 10 + s.draw(61);
                let mut t = String::from(pick(s, &["a", "$X", "1", "f(a, b)", "[a, b]", "add(1, 2)"]));
                let style = s.draw(8);
                for i in 0..depth {
                    let w = if style < 7 { style } else { s.draw(7) };
                    let next = match w {
                        0 => format!("f({})", t),
                        1 => format!("[{}]", t),
                        2 => format!("add(1, {})", t),
                        3 => format!("({})", t),
                        4 => format!("g(a, {}, [b])", t),
                        5 => format!("[a | [{}]]", t),
                        _ => if i % 2 == 0 { format!("join(x, {})", t) } else { format!("multiply({}, 2)", t) },
                    };
                    if next.chars().count() > 900 { break; }
                    t = next;
                }
                match s.draw(4) { 0 => t, 1 => format!("p :- $Z = {}.", t), 2 => format!("q({})", t), _ => format!("r({}) :- s.", t) }
            }
        };
        self.no_panic_text(&text, ["valid", "mutated", "random", "deeply-nested"][kind], rep)
    }

    pub fn no_panic_text(&self, text: &str, class: &str, rep: &mut Report) -> CaseResult {
        let entries: [(&str, Box<dyn Fn(&str) -> bool>); 9] = [
            ("parse_term", Box::new(|t| suiron::parse_term(t).is_ok())),
            ("parse_linked_list", Box::new(|t| suiron::parse_linked_list(t).is_ok())),
            ("parse_complex", Box::new(|t| suiron::parse_complex(t).is_ok())),
            ("parse_function", Box::new(|t| suiron::parse_function(t).is_ok())),
            ("parse_query", Box::new(|t| suiron::parse_query(t).is_ok())),
            ("parse_subgoal", Box::new(|t| suiron::parse_subgoal(t).is_ok())),
            ("generate_goal", Box::new(|t| suiron::generate_goal(t).is_ok())),
            ("parse_rule", Box::new(|t| suiron::parse_rule(t).is_ok())),
            ("parse_arguments", Box::new(|t| suiron::parse_arguments(t).is_ok())),
        ];
        let mut accepted = 0;
        for (name, f) in entries.iter() {
            match guarded(u64::MAX, || f(text)) {
                Ok(true) => accepted += 1,
                Ok(false) => {}
                Err(EngineFail::Panic { msg, loc }) => {
                    if std::env::var("SVERIF_COLLECT").is_ok() {
                        // survey mode (development aid): list every panic site instead of stopping at the first
                        if rep.classes.keys().filter(|k| k.starts_with(&format!("PANIC @ {}", loc))).count() == 0 {
                            rep.class(&format!("PANIC @ {} :: {} :: e.g. {}({:?})", loc, msg.chars().take(40).collect::<String>(), name, text.chars().take(40).collect::<String>()));
                        }
                        continue;
                    }
                    return CaseResult::Fail(Failure { kind: "parser-panic".into(), signature: format!("{}:panic:{}@{}", self.id, name, loc),
                        message: format!("{}({:?}) panicked at {}: {}", name, text, loc, msg), case: format!("{:?}", text) });
                }
                Err(f) => return fail(self.id, "parser-failure", format!("{}({:?}): {:?}", name, text, f), format!("{:?}", text)),
            }
        }
        rep.class(&format!("input:{}", class));
        rep.class(if accepted == 0 { "rejected-by-all-nine" } else { "accepted-by-some" });
        if accepted < 9 && text.chars().count() > 2 { rep.nontrivial(fnv(text)); rep.sample(json!({"text": text, "accepted_by": accepted})); }
        CaseResult::Pass
    }

    // -------------------------------------------------------------- C21
    fn file(&self, s: &mut dyn Src, rep: &mut Report) -> CaseResult {
        // class 3 (1 file in 5): a legal file *without comments* that is then damaged in one place - truncated anywhere,
        // a period deleted, a quote or a bracket inserted. Such a file may be rejected; if it is accepted, nothing of its
        // text may have been dropped or invented on the way ("never silently turned into different rules").
        let damaged = chance(s, 1, 5);
        // (kind and place of the damage are drawn now: a choice sequence that the layout uses up would leave only kind 0)
        let (dmg_kind, dmg_pos, dmg_bracket) = if damaged { (s.draw(5), s.draw(65535) as u64, pick(s, &['(', ')', '[', ']'])) } else { (0, 0, '(') };
        let n = 1 + size(s, 5, 40) as usize;
        let ia = chance(s, 1, 2);
        let st = Style { infix_compare: ia || chance(s, 1, 2), infix_arith: ia, bare_zero_arity: chance(s, 1, 3), ..CANON };
        let mut rules: Vec<String> = vec![];
        for _ in 0..n {
            let mut c = c_clause(s);
            // time(...) prints elapsed time but parses fine; keep. Facts need arguments or the bare form.
            if let Some(b) = &c.body { if !infix_arith_ok(b) && st.infix_arith { c.body = Some(Goal::Nl); } }
            rules.push(render::clause(&c, &st));
        }
        if rules.iter().any(|r| r.len() > TEXT_LIMIT) { return CaseResult::Discard(TOO_LONG.into()); }
        // Sometimes the knowledge base is not empty when the file is loaded (rules added through the API before,
        // possibly for the same predicates), and sometimes the same file is loaded twice: loading must add the
        // file's rules, in order, after whatever is there - exactly what add_rules on the parsed rules does.
        let nprior = if !damaged && chance(s, 1, 3) { 1 + s.draw(3) as usize } else { 0 };
        let mut prior: Vec<String> = vec![];
        for _ in 0..nprior {
            let mut c = c_clause(s);
            if chance(s, 1, 2) { c.body = None; }
            if let Some(b) = &c.body { if !infix_arith_ok(b) && st.infix_arith { c.body = Some(Goal::Nl); } }
            prior.push(render::clause(&c, &st));
        }
        let twice = !damaged && chance(s, 1, 6);
        // each rule text must itself be acceptable to parse_rule (otherwise the file is not in the claim)
        let mut reference = suiron::KnowledgeBase::new();
        let mut loaded = suiron::KnowledgeBase::new();
        for r in &prior {
            match parse_guard(|| suiron::parse_rule(r)) {
                Ok(Ok(rule)) => { suiron::add_rules(&mut reference, vec![rule.clone()]); suiron::add_rules(&mut loaded, vec![rule]); }
                Ok(Err(_)) | Err(_) => return CaseResult::Discard("rule text not accepted by parse_rule (C19's business)".into()),
            }
        }
        for r in rules.iter().chain(if twice { rules.iter() } else { [].iter() }) {
            match parse_guard(|| suiron::parse_rule(r)) {
                Ok(Ok(rule)) => suiron::add_rules(&mut reference, vec![rule]),
                Ok(Err(_)) | Err(_) => return CaseResult::Discard("rule text not accepted by parse_rule (C19's business)".into()),
            }
        }
        // layout
        let class2 = chance(s, 1, 4);
        let mut file = String::new();
        let (mut multi, mut comment, mut floaty) = (false, false, false);
        let comment_text = |s: &mut dyn Src| -> String { format!("{} {}", pick(s, &["#", "%", "//"]), pick(s, &["comment", "x(1).", "note: a, b; c", "don't", "smiley :-)", "(see kings.txt", "case a) first,", "list [1, 2", "] closes nothing.", "50 % of # are // fine", "ends with ="])) };
        for r in &rules {
            if !damaged && chance(s, 1, 4) { file.push_str(&comment_text(s)); file.push('\n'); comment = true; }
            if chance(s, 1, 5) { file.push('\n'); }
            if r.contains('.') && r[..r.len() - 1].contains('.') { floaty = true; }
            if r.contains(" = ") || r.contains(" + ") || r.contains(" - ") || r.contains(" < ") { floaty = true; }
            let chars: Vec<char> = r.chars().collect();
            let (mut round, mut square, mut quote) = (0i32, 0i32, false);
            let mut line_has_open = false; // a parenthesis opened on this line is still open
            let mut i = 0;
            while i < chars.len() {
                let ch = chars[i];
                file.push(ch);
                if ch == '"' { quote = !quote; }
                if !quote {
                    match ch { '(' => { round += 1; } ')' => { round -= 1; } '[' => { square += 1; } ']' => { square -= 1; } _ => {} }
                }
                let depth0 = round == 0 && square == 0 && !quote;
                let next_is_space = chars.get(i + 1) == Some(&' ');
                // documented continuation characters at the end of a line: - , ; =
                // (`=` also as the last character of the infixes == <= >=; `-` as the infix minus or the end of :-)
                let prev = if i > 0 { chars[i - 1] } else { ' ' };
                let infix_end = (ch == '=' && next_is_space && (prev == ' ' || prev == '=' || prev == '<' || prev == '>')) || (ch == '-' && next_is_space && prev == ' ');
                let cont_char = !quote && ((ch == '-' && prev == ':') || ch == ',' || ch == ';' || infix_end);
                // class 1: only outside parentheses and brackets; class 2: anywhere (inside argument lists,
                // lists and parenthesised groups of goals too)
                let can_break_here = cont_char && (depth0 || class2);
                if can_break_here && chance(s, 1, 3) {
                    if !damaged && depth0 && chance(s, 1, 4) && !line_has_open { file.push_str("  "); file.push_str(&comment_text(s)); comment = true; }
                    file.push('\n');
                    multi = true;
                    line_has_open = !depth0;
                    let ind = s.draw(3);
                    for _ in 0..ind { file.push_str(pick(s, &["  ", "\t", " "])); }
                    // skip the blank that followed the break character
                    if next_is_space { i += 1; }
                }
                i += 1;
            }
            let trailing_comment = !damaged && chance(s, 1, 4);
            if trailing_comment { file.push_str("   "); file.push_str(&comment_text(s)); comment = true; }
            // a comment runs to the end of its line, so the next rule starts on a new line
            if trailing_comment || chance(s, 2, 3) { file.push('\n'); } else { file.push(' '); }
        }
        let dir = format!("{}/work/tmp", std::env::var("VERIF_DIR").unwrap_or_else(|_| "/verif".into()));
        let _ = std::fs::create_dir_all(&dir);
        let path = format!("{}/c21-{}.txt", dir, std::process::id());
        if damaged {
            let mut chars: Vec<char> = file.chars().collect();
            let len = chars.len() as u64;
            let at = |n: u64| -> usize { ((dmg_pos * n) >> 16) as usize };   // position in 0..n
            let what = match dmg_kind {
                0 => { let i = 1 + at(len.max(2) - 1); chars.truncate(i); "truncated" }
                1 => { let ps: Vec<usize> = chars.iter().enumerate().filter(|(_, c)| **c == '.').map(|(i, _)| i).collect(); if ps.is_empty() { "unchanged" } else { let i = ps[at(ps.len() as u64)]; chars.remove(i); "period deleted" } }
                2 => { let i = at(len + 1); chars.insert(i, '"'); "quote inserted" }
                3 => { let i = at(len + 1); chars.insert(i, dmg_bracket); "bracket inserted" }
                _ => { let i = at(len + 1); chars.insert(i, '\n'); "line break inserted" }
            };
            let text: String = chars.into_iter().collect();
            if std::fs::write(&path, &text).is_err() { return CaseResult::Discard("cannot write scratch file".into()); }
            let case = format!("---- damaged file ({}) ----\n{}\n---- end ----", what, text);
            let mut kb = suiron::KnowledgeBase::new();
            let res = match guarded(u64::MAX, || suiron::load_kb_from_file(&mut kb, &path)) { Ok(r) => r, Err(f) => return fail(self.id, "loader-panic", format!("{:?}", f), case) };
            rep.class(&format!("class3:damaged:{}", what));
            if res.is_some() { rep.class("class3:rejected-with-error"); rep.nontrivial(fnv(&text)); return CaseResult::Pass; }
            // accepted: every non-blank character of the file must be in exactly the rules that were read, in order
            let read = match guarded(u64::MAX, || suiron::read_facts_and_rules(&path)) { Ok(Ok(r)) => r, Ok(Err(e)) => return fail(self.id, "reader-inconsistent", format!("load_kb_from_file accepted the file but read_facts_and_rules says {}", e), case), Err(f) => return fail(self.id, "loader-panic", format!("{:?}", f), case) };
            let squash = |t: &str| -> String { t.chars().filter(|c| !c.is_whitespace()).collect() };
            if squash(&read.concat()) != squash(&text) {
                return fail(self.id, "text-silently-dropped", format!("the file was accepted without an error, but the rules read from it are\n{:?}\nwhich is not the text of the file", read), case);
            }
            let mut reference = suiron::KnowledgeBase::new();
            for r in &read { match parse_guard(|| suiron::parse_rule(r)) { Ok(Ok(rule)) => suiron::add_rules(&mut reference, vec![rule]), _ => return fail(self.id, "accepted-unparsable-rule", format!("the file was accepted, but parse_rule rejects {:?}", r), case) } }
            if suiron::format_kb(&kb) != suiron::format_kb(&reference) { return fail(self.id, "silently-different", format!("loaded:\n{}\nrule-by-rule:\n{}", suiron::format_kb(&kb), suiron::format_kb(&reference)), case); }
            rep.class("class3:accepted-and-complete");
            return CaseResult::Pass;
        }
        if std::fs::write(&path, &file).is_err() { return CaseResult::Discard("cannot write scratch file".into()); }
        let res = match guarded(u64::MAX, || { let r1 = suiron::load_kb_from_file(&mut loaded, &path); if twice && r1.is_none() { suiron::load_kb_from_file(&mut loaded, &path) } else { r1 } }) {
            Ok(r) => r,
            Err(f) => return fail(self.id, "loader-panic", format!("{:?}", f), file.clone()),
        };
        let case = format!("---- file{} ----\n{}\n---- rules (one per line, as given to parse_rule) ----\n{}{}", if twice { " (loaded twice)" } else { "" }, file, rules.join("\n"),
                           if prior.is_empty() { String::new() } else { format!("\n---- rules added to the knowledge base before loading ----\n{}", prior.join("\n")) });
        match res {
            Some(err) => {
                if class2 { rep.class("class2-rejected-with-error"); }
                else { return fail(self.id, "legal-file-rejected", format!("load_kb_from_file -> {}", err), case); }
            }
            None => {
                let a = suiron::format_kb(&loaded);
                let b = suiron::format_kb(&reference);
                let same_structure = {
                    let mut keys: Vec<&String> = reference.keys().collect(); keys.sort();
                    let mut keys2: Vec<&String> = loaded.keys().collect(); keys2.sort();
                    keys == keys2 && keys.iter().all(|k| { let x = &reference[*k]; let y = &loaded[*k]; x.len() == y.len() && x.iter().zip(y.iter()).all(|(p, q)| p.head == q.head && p.body == q.body) })
                };
                if a != b || !same_structure {
                    return fail(self.id, "silently-different", format!("loaded:\n{}\nrule-by-rule:\n{}", a, b), case);
                }
            }
        }
        rep.class(if class2 { "class2:break-inside-parentheses" } else { "class1:documented-breaks" });
        if multi { rep.class("multi-line-rule"); }
        if !prior.is_empty() { rep.class("loaded-into-a-non-empty-knowledge-base"); }
        if twice { rep.class("file-loaded-twice"); }
        if comment { rep.class("has-comment"); }
        if multi && comment && floaty { rep.nontrivial(fnv(&file)); rep.sample(json!({"file": file})); }
        CaseResult::Pass
    }
}

/// String literals taken from the repository's own tests (valid and invalid source text).
pub const TEST_STRINGS: [&str; 40] = [
    "mother(June, Theodore).", "voter($P) :- $P = person($_, $Age), $Age >= 18.", "[a, b, c | $X]", "a, b, c", "[a, b, c", "[a | b | $T]", "[a, b, ]", "[a, b | ]", "[, b | $T]",
    "loves(Leonard, $Whom)", "grandfather($Who, Aethelstan)", "test :- $X = Δ, $L = [Α, Β, Γ, $X], print_list($L), nl.", "append(3.14159, [A, B, C], 6, $Out)", "add(5, 6, 7)", "add(, 6, 7)", "add(5, 6, )", "add()",
    "father(, Luke)", "father(Anakin,)", "punctuation(comma, \\,)", "8, 5.9, symptom, [], [a, b | $T], city(Toronto, 2.79)", "\"\"Hello\"", "x\"Hello\"", "\"Hello\"x", " $10 ", "$X * 7", "\"$X / 7\"", "($X + 7)",
    "a(1, 2), b(3, 4); c(5, 6), c(7, 8)", "a(1, 2), b(3, 4", "$X = 1, 2, 3]", "get_value($X) :- $X = 1.", "test2($X) :- get_value($X), !, $X == 2.", "parse)$In, $Out(", "$X <=1", "\" <= \"", "qsort([], $R, $R).",
    "partition([$X | $L], $Y, [$X | $L1], $L2) :- $X <= $Y, !, partition($L, $Y, $L1, $L2).", "m :- time(qsort).", "",
];

impl Property for ParserProp {
    fn id(&self) -> &'static str { self.id }
    fn max_len(&self) -> usize { 320 }
    // cases per worker (quick, thorough); the string-level checks cost a few microseconds per case
    fn budget(&self) -> (u64, u64) {
        match self.aspect {
            PAspect::File => (6000, 40_000),
            PAspect::NoPanic => (250_000, 1_500_000),
            _ => (80_000, 300_000),
        }
    }

    fn check(&self, s: &mut dyn Src, rep: &mut Report) -> CaseResult {
        match self.aspect {
            PAspect::NoPanic => self.no_panic(s, rep),
            PAspect::RoundTrip => match s.draw(3) {
                0 => { let t = c_term(s, 0); self.roundtrip_term(&t, rep) }
                1 => { let g = c_goal(s, 0); self.roundtrip_goal(&g, rep) }
                _ => { let c = c_clause(s); self.roundtrip_clause(&c, rep) }
            },
            PAspect::Context => self.context(s, rep),
            PAspect::File => self.file(s, rep),
        }
    }

    fn fixed(&self, rep: &mut Report) -> Vec<(String, CaseResult)> {
        let mut out = vec![];
        match self.aspect {
            PAspect::NoPanic => {
                for (i, t) in TEST_STRINGS.iter().enumerate() { out.push((format!("test-string-{}", i), self.no_panic_text(t, "repo-test-string", rep))); }
                const NASTY: [&str; 40] = ["()", "( )", "(a", "a)", "(a, b)(c)", ";", ",", "a,,b", "(,)", "a;(b", "(a);", "((a))", "(a, b), (c; d)", "a, (b", "a, b)", "(;)", "a;", ";a", ",a", "a,",
                    "not()", "time()", "not(a, b)", "not((a))", "p :- ", ":- a", "p :- :- q", "p :- (a, b", "p :- a)", "[", "]", "[|]", "[a|]", "[|a]", "\"", "\\", "$", "$_ = ", " = ", "f(\")"];
                for (i, t) in NASTY.iter().enumerate() { out.push((format!("nasty-{}", i), self.no_panic_text(t, "hand-written", rep))); }
            }
            PAspect::RoundTrip => {
                for (i, t) in ["p :- aa(x), bb(x); cc(x).", "p :- aa(x), (bb(x); cc(x)).", "qq.", "p(-5).", "p :- (a, b), c.", "p :- (a; b); c.", "p :- $X = -5, $X < -2.5.", "f().", "p :- f()."].iter().enumerate() {
                    let mut pp = crate::ast_parse::P::new(t);
                    if let Ok(c) = pp.clause() { out.push((format!("clause-{}", i), self.roundtrip_clause(&c, rep))); }
                }
            }
            _ => {}
        }
        out
    }

    fn families(&self) -> Vec<Family> {
        if self.aspect != PAspect::RoundTrip { return vec![]; }
        let me = ParserProp { id: self.id, aspect: self.aspect };
        let me2 = ParserProp { id: self.id, aspect: self.aspect };
        fn tiny_term(s: &mut dyn Src, depth: u32) -> Term {
            let n = if depth >= 1 { 6 } else { 9 };
            match s.draw(n) {
                0 => Term::atom("a"), 1 => Term::Int(-3), 2 => Term::Float(2.5), 3 => Term::var("$X"), 4 => Term::Anon, 5 => Term::List(vec![], None),
                6 => Term::Cmp("f".into(), (0..s.draw(3)).map(|_| tiny_term(s, depth + 1)).collect()),
                7 => { let k = 1 + s.draw(2); Term::List((0..k).map(|_| tiny_term(s, depth + 1)).collect(), None) }
                _ => Term::List(vec![tiny_term(s, depth + 1)], Some(Box::new(if s.draw(2) == 0 { Term::var("$T") } else { Term::Anon }))),
            }
        }
        fn tiny_leaf(s: &mut dyn Src) -> Goal {
            match s.draw(6) { 0 => Goal::Call("a".into(), vec![]), 1 => Goal::Call("b".into(), vec![Term::var("$X")]), 2 => Goal::Unify(Term::var("$X"), Term::Int(-1)), 3 => Goal::Cut, 4 => Goal::Compare(CmpOp::Le, Term::var("$X"), Term::Float(2.5)), _ => Goal::Fail }
        }
        fn tiny_goal(s: &mut dyn Src, depth: u32) -> Goal {
            if depth >= 2 { return tiny_leaf(s); }
            match s.draw(3) { 0 => tiny_leaf(s), 1 => Goal::And(vec![tiny_goal(s, depth + 1), tiny_goal(s, depth + 1)]), _ => Goal::Or(vec![tiny_goal(s, depth + 1), tiny_goal(s, depth + 1)]) }
        }
        vec![
            Family { name: "small-terms", describe: "all terms of depth <= 2 over {a, -3, 2.5, $X, $_, [], f/0-2, lists of 1-2 elements, [t | $T], [t | $_]}", quick_cap: Some(20_000),
                check: Box::new(move |s, rep| { let t = tiny_term(s, 0); if rep.decode_only { return CaseResult::Pass; } me.roundtrip_term(&t, rep) }) },
            Family { name: "small-bodies", describe: "all rules p :- B with B an and/or tree of depth <= 2 over 6 leaf goals", quick_cap: Some(20_000),
                check: Box::new(move |s, rep| { let g = tiny_goal(s, 0); if rep.decode_only { return CaseResult::Pass; } let c = Clause { name: "p".into(), args: vec![], body: Some(g) }; me2.roundtrip_clause(&c, rep) }) },
        ]
    }

    fn rule(&self) -> String {
        match self.aspect {
            PAspect::NoPanic => "three generators feed all nine entry points (parse_term, parse_linked_list, parse_complex, parse_function, parse_query, parse_subgoal, generate_goal, parse_rule, parse_arguments): valid text rendered from the canonical grammar or taken from the repository's tests; 1-3 character-level mutations of such text (delete, duplicate, swap, truncate, insert from the syntax alphabet); random concatenations of up to 24 syntax tokens. Oracle: no panic (catch_unwind), identified by entry point and panic location. Non-trivial = text longer than 2 characters rejected by at least one entry point; distinct by text.".into(),
            PAspect::RoundTrip => "terms, goals (and/or trees to depth 3, not/time, unify, named comparison, all built-in predicates, function terms) and facts/rules generated from the documented syntax (atoms with spaces / unicode / hyphens, ints incl. negative, floats with a fractional part, variables, $_, lists with optional tail, complex terms of arity 0-4). Oracle: parser accepts the canonical text and the accepted variants (tight commas, quoted atoms, padding, infix comparison, infix arithmetic, bare zero-arity, redundant parentheses); the parsed value equals the value built through the API from the same AST; Display reproduces the canonical text. Non-trivial = contains a nested operator goal, a zero-arity term, a negative number, a float or a list tail; distinct by canonical text.".into(),
            PAspect::Context => "term texts (canonical grammar terms; generated signed numbers: optional sign, 1-20 digits incl. leading zeros and beyond i64, optional fraction; a fixed list of punctuation and odd atoms) placed in 14 contexts: alone, argument of a complex term / goal / built-in, (nested) list element, either operand of = and of comparisons, query argument, fact argument. Oracle (metamorphic): every context yields the same term (ids stripped) or every context rejects. Non-trivial = generated number, listed special text, or grammar term starting with a sign or digit; distinct by text.".into(),
            PAspect::File => "1-5 rules from the canonical grammar rendered in accepted syntax (incl. floats and infix operators), laid out with random legal line breaks (after :- and after , ; = - at nesting depth 0 (class 1) or additionally after commas inside parentheses (class 2)), indentation, blank lines and #, %, // comments; written to a scratch file and loaded with load_kb_from_file. Oracle: class 1 must load and equal the knowledge base built by parse_rule on each rule's one-line text (format_kb and rule-by-rule head/body equality); class 2 may alternatively be rejected with an error. Non-trivial = the file has a multi-line rule, a comment, and a float or infix operator; distinct by file text.".into(),
        }
    }

    fn assumptions(&self) -> Vec<String> {
        vec!["atoms in generated source text avoid reserved words and characters with syntactic meaning; compound goals inside not(...)/time(...) are not written in text (only constructible through the API)".into(),
             "a file is in C21's claim only if each of its rules is accepted by parse_rule on its own".into()]
    }
}
