pub mod solver;
pub mod unify;
pub mod builtins;
pub mod parsers;
pub mod rename;
pub mod queries;

use crate::driver::Property;

pub fn all_ids() -> Vec<&'static str> {
    vec!["C01", "C02", "C03", "C04", "C05", "C06", "C07", "C08", "C09", "C11", "C12", "C13", "C14", "C15", "C16", "C17", "C18", "C19", "C20", "C21"]
}

pub fn by_id(id: &str) -> Option<Box<dyn Property>> {
    use solver::{Aspect, SolverProp};
    use unify::{UAspect, UnifyProp};
    Some(match id {
        "C01" => Box::new(SolverProp { id: "C01", aspect: Aspect::Answers }),
        "C02" => Box::new(SolverProp { id: "C02", aspect: Aspect::Cut }),
        "C03" => Box::new(SolverProp { id: "C03", aspect: Aspect::Not }),
        "C04" => Box::new(SolverProp { id: "C04", aspect: Aspect::Output }),
        "C05" => Box::new(SolverProp { id: "C05", aspect: Aspect::Exhausted }),
        "C11" => Box::new(SolverProp { id: "C11", aspect: Aspect::Renaming }),
        "C06" => Box::new(UnifyProp { id: "C06", aspect: UAspect::Mgu }),
        "C07" => Box::new(UnifyProp { id: "C07", aspect: UAspect::Symmetry }),
        "C08" => Box::new(UnifyProp { id: "C08", aspect: UAspect::Acyclic }),
        "C09" => Box::new(UnifyProp { id: "C09", aspect: UAspect::Anon }),
        "C12" => Box::new(builtins::BuiltinProp { id: "C12", aspect: builtins::BAspect::Arith }),
        "C13" => Box::new(builtins::BuiltinProp { id: "C13", aspect: builtins::BAspect::FuncSides }),
        "C14" => Box::new(builtins::BuiltinProp { id: "C14", aspect: builtins::BAspect::Compare }),
        "C15" => Box::new(builtins::BuiltinProp { id: "C15", aspect: builtins::BAspect::Lists }),
        "C16" => Box::new(builtins::BuiltinProp { id: "C16", aspect: builtins::BAspect::Append }),
        "C17" => Box::new(builtins::BuiltinProp { id: "C17", aspect: builtins::BAspect::Misc }),
        "C18" => Box::new(parsers::ParserProp { id: "C18", aspect: parsers::PAspect::NoPanic }),
        "C19" => Box::new(parsers::ParserProp { id: "C19", aspect: parsers::PAspect::RoundTrip }),
        "C20" => Box::new(parsers::ParserProp { id: "C20", aspect: parsers::PAspect::Context }),
        "C21" => Box::new(parsers::ParserProp { id: "C21", aspect: parsers::PAspect::File }),
        "C10" => Box::new(rename::RenameProp { id: "C10" }),
        "C22" => Box::new(queries::QueryProp { id: "C22", aspect: queries::QAspect::History }),
        "C23" => Box::new(queries::QueryProp { id: "C23", aspect: queries::QAspect::Timeout }),
        _ => return None,
    })
}
