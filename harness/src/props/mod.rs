pub mod solver;
pub mod unify;

use crate::driver::Property;

pub fn all_ids() -> Vec<&'static str> {
    vec!["C01", "C02", "C03", "C04", "C05", "C06", "C07", "C08", "C09", "C11"]
}

pub fn by_id(id: &str) -> Option<Box<dyn Property>> {
    use solver::{Aspect, SolverProp};
    use unify::{UAspect, UnifyProp};
    Some(match id {
        "C01" => Box::new(SolverProp { id: "C01", aspect: Aspect::Answers }),
        "C02" => Box::new(SolverProp { id: "C02", aspect: Aspect::Cut }),
        "C03" => Box::new(SolverProp { id: "C03", aspect: Aspect::Not }),
        "C04" => Box::new(SolverProp { id: "C04", aspect: Aspect::Output }),
        "C05" => Box::new(SolverProp { id: "C05", aspect: Aspect::Exhausted }),
        "C11" => Box::new(SolverProp { id: "C11", aspect: Aspect::Renaming }),
        "C06" => Box::new(UnifyProp { id: "C06", aspect: UAspect::Mgu }),
        "C07" => Box::new(UnifyProp { id: "C07", aspect: UAspect::Symmetry }),
        "C08" => Box::new(UnifyProp { id: "C08", aspect: UAspect::Acyclic }),
        "C09" => Box::new(UnifyProp { id: "C09", aspect: UAspect::Anon }),
        _ => return None,
    })
}
