//! C10: renaming apart changes only variables, consistently, and hands out fresh ids.

use crate::ast::*;
use crate::bridge::*;
use crate::choice::*;
use crate::driver::*;
use crate::engine::*;
use crate::gen::*;
use crate::refsolve::{solve_program, Limits, Status};
use crate::report::*;
use serde_json::json;
use std::collections::{BTreeMap, BTreeSet};
use std::rc::Rc;
use suiron::Unifiable as U;

pub struct RenameProp { pub id: &'static str }

fn fail(id: &str, kind: &str, msg: String, case: String) -> CaseResult {
    CaseResult::Fail(Failure { kind: kind.to_string(), signature: format!("{}:{}", id, kind), message: msg, case })
}

/// (name, id) of every variable occurrence, in reading order.
pub fn occurrences_u(u: &U, out: &mut Vec<(String, usize)>) {
    match u {
        U::LogicVar { id, name } => out.push((name.clone(), *id)),
        U::SComplex(v) => for x in v { occurrences_u(x, out); },
        U::SFunction { terms, .. } => for x in terms { occurrences_u(x, out); },
        U::SLinkedList { term, next, .. } => { occurrences_u(term, out); occurrences_u(next, out); }
        _ => {}
    }
}
pub fn occurrences_g(g: &suiron::Goal, out: &mut Vec<(String, usize)>) {
    match g {
        suiron::Goal::ComplexGoal(u) => occurrences_u(u, out),
        suiron::Goal::BuiltInGoal(b) => if let Some(ts) = &b.terms { for t in ts { occurrences_u(t, out); } },
        suiron::Goal::OperatorGoal(op) => { for i in 0..op.len() { occurrences_g(&op.get_subgoal(i), out); } }
        suiron::Goal::Nil => {}
    }
}

fn zero_u(u: &U) -> U {
    match u {
        U::LogicVar { name, .. } => U::LogicVar { id: 0, name: name.clone() },
        U::SComplex(v) => U::SComplex(v.iter().map(zero_u).collect()),
        U::SFunction { name, terms } => U::SFunction { name: name.clone(), terms: terms.iter().map(zero_u).collect() },
        U::SLinkedList { term, next, count, tail_var } => U::SLinkedList { term: Box::new(zero_u(term)), next: Box::new(zero_u(next)), count: *count, tail_var: *tail_var },
        other => other.clone(),
    }
}
fn zero_g(g: &suiron::Goal) -> suiron::Goal {
    use suiron::{Goal as G, Operator as O};
    match g {
        G::ComplexGoal(u) => G::ComplexGoal(zero_u(u)),
        G::BuiltInGoal(b) => G::BuiltInGoal(suiron::BuiltInPredicate::new(b.functor.clone(), b.terms.as_ref().map(|ts| ts.iter().map(zero_u).collect()))),
        G::OperatorGoal(op) => {
            let subs: Vec<G> = (0..op.len()).map(|i| zero_g(&op.get_subgoal(i))).collect();
            G::OperatorGoal(match op { O::And(_) => O::And(subs), O::Or(_) => O::Or(subs), O::Time(_) => O::Time(subs), O::Not(_) => O::Not(subs) })
        }
        G::Nil => G::Nil,
    }
}

fn wf_goal(g: &suiron::Goal, out: &mut Vec<String>) {
    match g {
        suiron::Goal::ComplexGoal(u) => out.extend(wf_problems(u)),
        suiron::Goal::BuiltInGoal(b) => if let Some(ts) = &b.terms { for t in ts { out.extend(wf_problems(t)); } },
        suiron::Goal::OperatorGoal(op) => { for i in 0..op.len() { wf_goal(&op.get_subgoal(i), out); } }
        suiron::Goal::Nil => {}
    }
}

/// Checks one renaming: `occ` are the renamed value's occurrences, `before` the counter before the call.
fn check_ids(id: &str, what: &str, occ: &[(String, usize)], before: usize, case: &str) -> Option<CaseResult> {
    let mut by_name: BTreeMap<&str, usize> = BTreeMap::new();
    let mut by_id: BTreeMap<usize, &str> = BTreeMap::new();
    for (n, i) in occ {
        if *i <= before { return Some(fail(id, "id-not-fresh", format!("{}: {} got id {} but the counter was {} before the call", what, n, i, before), case.to_string())); }
        if let Some(j) = by_name.insert(n, *i) { if j != *i { return Some(fail(id, "same-name-different-ids", format!("{}: {} has ids {} and {}", what, n, j, i), case.to_string())); } }
        if let Some(m) = by_id.insert(*i, n) { if m != n { return Some(fail(id, "different-names-same-id", format!("{}: id {} is used for {} and {}", what, i, m, n), case.to_string())); } }
    }
    let after = suiron::get_var_id();
    let max = by_id.keys().max().copied().unwrap_or(before);
    if after != max.max(before) { return Some(fail(id, "counter-mismatch", format!("{}: counter is {} after the call, largest id handed out is {} (counter before: {})", what, after, max, before), case.to_string())); }
    if by_id.len() != after - before { return Some(fail(id, "ids-skipped", format!("{}: {} distinct variables but the counter advanced from {} to {}", what, by_id.len(), before, after), case.to_string())); }
    None
}

impl RenameProp {
    fn check_clause(&self, c: &Clause, start: usize, rep: &mut Report) -> CaseResult {
        let case = format!("{}   (id counter starts at {})", c, start);
        let rule = clause_to_engine(c);
        let r = guarded(u64::MAX, || -> Option<CaseResult> {
            // 1. Rule::recreate_variables, once and again
            suiron::set_var_id(start);
            let r2 = rule.clone().recreate_variables(&mut suiron::VarMap::new());
            let mut occ = vec![]; occurrences_u(&r2.head, &mut occ); occurrences_g(&r2.body, &mut occ);
            if let Some(f) = check_ids(self.id, "Rule::recreate_variables", &occ, start, &case) { return Some(f); }
            if zero_u(&r2.head) != rule.head || zero_g(&r2.body) != rule.body {
                return Some(fail(self.id, "structure-changed", format!("renamed rule: {}\n   {:?} :- {:?}\noriginal:  {:?} :- {:?}", r2, r2.head, r2.body, rule.head, rule.body), case.clone()));
            }
            let mut probs = wf_problems(&r2.head); wf_goal(&r2.body, &mut probs);
            if !probs.is_empty() { return Some(fail(self.id, "malformed-list", format!("{:?} in {}", probs, r2), case.clone())); }
            let mid = suiron::get_var_id();
            let r3 = r2.clone().recreate_variables(&mut suiron::VarMap::new());
            let mut occ3 = vec![]; occurrences_u(&r3.head, &mut occ3); occurrences_g(&r3.body, &mut occ3);
            if let Some(f) = check_ids(self.id, "second renaming", &occ3, mid, &case) { return Some(f); }
            if zero_u(&r3.head) != rule.head || zero_g(&r3.body) != rule.body { return Some(fail(self.id, "structure-changed", format!("after two renamings: {}", r3), case.clone())); }
            // 2. the other entry points
            suiron::set_var_id(start);
            let h2 = rule.head.clone().recreate_variables(&mut suiron::VarMap::new());
            let mut occ = vec![]; occurrences_u(&h2, &mut occ);
            if let Some(f) = check_ids(self.id, "Unifiable::recreate_variables", &occ, start, &case) { return Some(f); }
            if zero_u(&h2) != rule.head { return Some(fail(self.id, "structure-changed", format!("head renamed to {:?}", h2), case.clone())); }
            if rule.body != suiron::Goal::Nil {
                suiron::set_var_id(start);
                let b2 = rule.body.clone().recreate_variables(&mut suiron::VarMap::new());
                let mut occ = vec![]; occurrences_g(&b2, &mut occ);
                if let Some(f) = check_ids(self.id, "Goal::recreate_variables", &occ, start, &case) { return Some(f); }
                if zero_g(&b2) != rule.body { return Some(fail(self.id, "structure-changed", format!("body renamed to {}", b2), case.clone())); }
            }
            // 3. get_rule
            let mut kb = suiron::KnowledgeBase::new();
            suiron::add_rules(&mut kb, vec![rule.clone()]);
            suiron::set_var_id(start);
            let g = suiron::get_rule(&kb, &rule.key(), 0);
            let mut occ = vec![]; occurrences_u(&g.head, &mut occ); occurrences_g(&g.body, &mut occ);
            if let Some(f) = check_ids(self.id, "get_rule", &occ, start, &case) { return Some(f); }
            if zero_u(&g.head) != rule.head || zero_g(&g.body) != rule.body { return Some(fail(self.id, "structure-changed", format!("get_rule gave {}", g), case.clone())); }
            // the stored rule is untouched
            let stored = &kb[&rule.key()][0];
            if stored.head != rule.head || stored.body != rule.body { return Some(fail(self.id, "stored-rule-changed", format!("{}", stored), case.clone())); }
            // 4. query constructors restart at 1
            if let U::SComplex(terms) = &rule.head {
                suiron::set_var_id(start + 7);
                let q = suiron::make_query(terms.clone());
                let mut occ = vec![]; occurrences_g(&q, &mut occ);
                if let Some(f) = check_ids(self.id, "make_query", &occ, 0, &case) { return Some(f); }
                if zero_g(&q) != suiron::Goal::ComplexGoal(rule.head.clone()) { return Some(fail(self.id, "structure-changed", format!("make_query gave {}", q), case.clone())); }
                // 5. the same from terms whose variables already carry ids (taken from an earlier renaming, as a caller
                // does who builds a new query out of an old goal, or with logic_var!(n, name)): old ids mean nothing
                if let U::SComplex(numbered) = &g.head {
                    suiron::set_var_id(start + 3);
                    let q = suiron::make_query(numbered.clone());
                    let mut occ = vec![]; occurrences_g(&q, &mut occ);
                    if let Some(f) = check_ids(self.id, "make_query(terms with numbered variables)", &occ, 0, &case) { return Some(f); }
                    if zero_g(&q) != suiron::Goal::ComplexGoal(rule.head.clone()) { return Some(fail(self.id, "structure-changed", format!("make_query over numbered variables gave {}", q), case.clone())); }
                }
            }
            None
        });
        match r {
            Ok(Some(f)) => return f,
            Ok(None) => {}
            Err(e) => return fail(self.id, "engine-failure", format!("{:?}", e), case),
        }
        let vars = c.vars();
        let mut all_occ = vec![]; occurrences_u(&rule.head, &mut all_occ); occurrences_g(&rule.body, &mut all_occ);
        let repeated = all_occ.len() > vars.len();
        let mut ts: Vec<Term> = c.args.clone(); if let Some(b) = &c.body { b.terms(&mut ts); }
        let has_list = ts.iter().any(|t| t.has_list());
        if ts.iter().any(|t| t.has_empty_list()) { rep.class("contains-[]"); }
        if repeated { rep.class("repeated-variable"); }
        if repeated && has_list { rep.nontrivial(fnv(&case)); rep.sample(json!({"clause": format!("{}", c), "counter_start": start})); }
        CaseResult::Pass
    }

    /// Renamings taken in the middle of a running search must use ids nobody else uses.
    fn check_mid_search(&self, p: &Program, probe: u32, rep: &mut Report) -> CaseResult {
        let reference = solve_program(p, Limits::default());
        if reference.status != Status::Finished { return CaseResult::Discard("reference did not finish".into()); }
        let expected = reference.answers().len();
        let case = format!("{}", p);
        let keys: Vec<(String, usize)> = { let mut m: BTreeMap<String, usize> = BTreeMap::new(); for c in &p.clauses { *m.entry(c.key()).or_insert(0) += 1; } m.into_iter().collect() };
        let r = guarded(crate::props::solver::tick_budget(reference.stats.steps), || -> Result<usize, CaseResult> {
            suiron::start_query();
            let kb = build_kb(&p.clauses);
            let goal = Rc::new(query_goal(p));
            let mut qocc = vec![]; occurrences_g(&goal, &mut qocc);
            let sn = suiron::make_base_node(Rc::clone(&goal), &kb);
            let mut n = 0;
            let mut k = probe as usize;
            loop {
                match suiron::next_solution(Rc::clone(&sn)) {
                    None => break,
                    Some(ss) => {
                        n += 1;
                        // ids in use: the query's, and everything in the answer's binding vector
                        let mut in_use: BTreeSet<usize> = qocc.iter().map(|x| x.1).collect();
                        for (i, e) in ss.iter().enumerate() { if let Some(t) = e { in_use.insert(i); let mut o = vec![]; occurrences_u(t, &mut o); for (_, j) in o { in_use.insert(j); } } }
                        let saved = suiron::get_var_id();
                        let (key, cnt) = &keys[k % keys.len()];
                        let fetched = suiron::get_rule(&kb, key, k % cnt);
                        k += 7;
                        let mut occ = vec![]; occurrences_u(&fetched.head, &mut occ); occurrences_g(&fetched.body, &mut occ);
                        for (name, i) in &occ {
                            if in_use.contains(i) {
                                return Err(fail(self.id, "fresh-variable-already-in-use", format!("after answer {} get_rule({}, ..) gave {} the id {}, which the current search uses (ids in use: {:?})", n, key, name, i, in_use), case.clone()));
                            }
                        }
                        suiron::set_var_id(saved); // leave the search undisturbed
                        if n > expected + 3 { break; }
                    }
                }
            }
            Ok(n)
        });
        match r {
            Ok(Ok(n)) => {
                if n != expected { return CaseResult::Discard("answer count differs from the reference (C01's business)".into()); }
                if n >= 1 { rep.class("renaming-taken-mid-search"); rep.nontrivial(fnv(&format!("mid|{}", case))); if n >= 2 { rep.sample(json!({"program": case, "probes": n})); } }
                CaseResult::Pass
            }
            Ok(Err(f)) => f,
            Err(e) => fail(self.id, "engine-failure", format!("{:?}", e), case),
        }
    }
}

/// clause generator with many repeated variables, lists and [] (C19-style constructs included)
fn rich_clause(s: &mut dyn Src) -> Clause {
    let vars = ["$X", "$Y", "$Z", "$Long_name", "$X1"];
    fn t(s: &mut dyn Src, vars: &[&str], d: u32) -> Term {
        match weighted(s, &[3, 5, 1, 2, if d < 2 { 4 } else { 0 }, if d < 2 { 2 } else { 0 }, 1]) {
            0 => Term::atom(pick(s, &["a", "b", "Harold II"])),
            1 => Term::var(pick(s, vars)),
            2 => Term::Anon,
            3 => Term::List(vec![], None),
            4 => { let n = 1 + s.draw(3) as usize; let es = (0..n).map(|_| t(s, vars, d + 1)).collect(); let tail = match s.draw(3) { 0 => Some(Box::new(Term::var(pick(s, vars)))), 1 => None, _ => if chance(s, 1, 3) { Some(Box::new(Term::Anon)) } else { None } }; Term::List(es, tail) }
            5 => { let n = s.draw(3) as usize; Term::Cmp(pick(s, &["f", "g"]).to_string(), (0..n).map(|_| t(s, vars, d + 1)).collect()) }
            _ => if chance(s, 1, 2) { Term::Int(s.draw(9) as i64 - 3) } else { Term::Float(2.5) },
        }
    }
    fn g(s: &mut dyn Src, vars: &[&str], d: u32) -> Goal {
        match weighted(s, &[5, 2, 2, 2, 1, 1, if d < 2 { 3 } else { 0 }, if d < 2 { 2 } else { 0 }, 1, 1]) {
            0 => { let n = s.draw(3) as usize; Goal::Call(pick(s, &["p", "q"]).to_string(), (0..n).map(|_| t(s, vars, 0)).collect()) }
            1 => Goal::Unify(t(s, vars, 0), t(s, vars, 0)),
            2 => Goal::Unify(Term::var(pick(s, vars)), Term::Func(pick(s, &["add", "join"]).to_string(), vec![t(s, vars, 1), t(s, vars, 1)])),
            3 => Goal::Compare(pick(s, &CmpOp::ALL), t(s, vars, 1), t(s, vars, 1)),
            4 => Goal::BuiltIn(pick(s, &["append", "include", "print"]).to_string(), vec![t(s, vars, 0), t(s, vars, 0), Term::var(pick(s, vars))]),
            5 => pick(s, &[Goal::Cut, Goal::Fail, Goal::Nl]),
            6 => Goal::And((0..(2 + s.draw(2))).map(|_| g(s, vars, d + 1)).collect()),
            7 => Goal::Or((0..(2 + s.draw(2))).map(|_| g(s, vars, d + 1)).collect()),
            8 => Goal::Not(Box::new(g(s, vars, d + 1))),
            _ => Goal::Time(Box::new(g(s, vars, 2))),
        }
    }
    let n = s.draw(4) as usize;
    let args = (0..n).map(|_| t(s, &vars, 0)).collect();
    let body = if chance(s, 1, 3) { None } else { Some(g(s, &vars, 0)) };
    Clause { name: "r".into(), args, body }
}

impl Property for RenameProp {
    fn id(&self) -> &'static str { self.id }
    fn max_len(&self) -> usize { 256 }
    fn budget(&self) -> (u64, u64) { (16_000, 100_000) }

    fn check(&self, s: &mut dyn Src, rep: &mut Report) -> CaseResult {
        if chance(s, 1, 3) {
            let feat = Features { cut: true, not: true, output: false, anon: true, alias_heavy: false };
            let probe = s.draw(50);
            let (p, _) = gen_any_program(s, feat);
            self.check_mid_search(&p, probe, rep)
        } else {
            let start = if chance(s, 1, 2) { 0 } else { s.draw(60) as usize };
            let c = rich_clause(s);
            self.check_clause(&c, start, rep)
        }
    }

    fn fixed(&self, rep: &mut Report) -> Vec<(String, CaseResult)> {
        let mut out = vec![];
        for (i, t) in ["len([], 0).", "p([], [[]], [a, []]).", "p($X, [$X | $T], f($X, $T)) :- q($T, $X), ($X = []; r([$T])).", "p([$_ | $_], $_).", "p($X) :- $X = add($X, 1), not(q($X))."].iter().enumerate() {
            let mut pp = crate::ast_parse::P::new(t);
            let c = pp.clause().unwrap();
            out.push((format!("clause-{}", i), self.check_clause(&c, i * 5, rep)));
        }
        out
    }

    fn rule(&self) -> String {
        "two thirds: clauses with many repeated variables, lists (incl. [], nested, tails, $_ tails), complex and function terms, every goal kind (and/or/not/time, unify, comparison, built-ins, !/fail/nl), renamed with the id counter set to 0 or a random start through Rule/Unifiable/Goal::recreate_variables (once and twice), get_rule and make_query (also over terms whose variables already carry ids); oracle (invariant): resetting ids to 0 gives back exactly the original value (derived ==), lists well formed, same name <=> same id, every id greater than the counter before the call, counter afterwards equals the largest id and no id is skipped, make_query restarts at 1. One third: a generated program is solved and after every answer get_rule is called on some predicate; oracle: none of its ids occurs in the query or in the answer's binding vector. Non-trivial = clause with a repeated variable and a list, or a renaming taken mid-search; distinct by clause / program text.".into()
    }

    fn assumptions(&self) -> Vec<String> {
        vec!["after the mid-search probe the id counter is restored, so the observed search is the undisturbed one".into()]
    }
}
