//! C22 (a query's answers do not depend on earlier queries) and C23 (solve / solve_all
//! report real answers or a timeout), with the real timer thread.

use crate::ast::*;
use crate::ast_parse::parse_program;
use crate::bridge::*;
use crate::capture;
use crate::choice::*;
use crate::driver::*;
use crate::engine::*;
use crate::gen::*;
use crate::refsolve::{solve_program, Limits, Status};
use crate::report::*;
use serde_json::json;
use std::rc::Rc;
use std::time::{Duration, Instant};
use suiron::Unifiable as U;

#[derive(Clone, Copy, PartialEq, Debug)]
pub enum QAspect { History, Timeout }

pub struct QueryProp { pub id: &'static str, pub aspect: QAspect }

const TIMEOUT_MSG: &str = "Query timed out after 1000 milliseconds.";
const NO_MORE: &str = "No more.";

fn fail(id: &str, kind: &str, msg: String, case: String) -> CaseResult {
    CaseResult::Fail(Failure { kind: kind.to_string(), signature: format!("{}:{}", id, kind), message: msg, case })
}

fn mk_query(name: &str, args: &[Term]) -> suiron::Goal {
    let mut terms = vec![U::Atom(name.to_string())];
    for a in args { terms.push(to_engine(a, &Ids::Zero)); }
    suiron::make_query(terms)
}

/// The query built by one of the documented constructors: make_query (style 0) or parse_query on its
/// source text (styles 1-3: `name(args)`, with a trailing period, zero-arity also as bare `name`).
/// Falls back to make_query when the query has no faithful source text.
fn mk_query_styled(name: &str, args: &[Term], style: u32) -> suiron::Goal {
    if style == 0 { return mk_query(name, args); }
    let probe = Program { clauses: vec![Clause { name: name.to_string(), args: args.to_vec(), body: None }], qname: name.to_string(), qargs: args.to_vec() };
    if !crate::props::solver::text_presentable(&probe) { return mk_query(name, args); }
    let mut text = if args.is_empty() && style == 3 { name.to_string() } else { crate::render::term(&Term::Cmp(name.to_string(), args.to_vec()), &crate::render::CANON) };
    if style == 2 { text.push('.'); }
    match suiron::parse_query(&text) {
        Ok(g) => g,
        Err(_) => mk_query(name, args),
    }
}

/// `$Name_12` -> `$Name_`: the number a still-unbound variable is displayed with depends on where the id
/// counter stood when the query ran, which legitimately differs for a node that was made earlier.
fn strip_var_numbers(t: &str) -> String {
    let cs: Vec<char> = t.chars().collect();
    let mut out = String::new();
    let mut i = 0;
    while i < cs.len() {
        out.push(cs[i]);
        if cs[i] == '$' {
            i += 1;
            while i < cs.len() && (cs[i].is_alphanumeric() || cs[i] == '_') { out.push(cs[i]); i += 1; }
            // drop the trailing digits of the `_digits` suffix
            while out.ends_with(|c: char| c.is_ascii_digit()) { out.pop(); }
            continue;
        }
        i += 1;
    }
    out
}

fn fmt_solution(qargs: &[Term], display: &[String]) -> String {
    let mut parts = vec![];
    for (i, q) in qargs.iter().enumerate() { if let Term::Var(n) = q { parts.push(format!("{} = {}", n, display[i])); } }
    parts.join(", ")
}

/// All answers of a query through next_solution: (solve-style strings, output per answer, tail output).
fn enumerate(kb: &suiron::KnowledgeBase, goal: suiron::Goal, qargs: &[Term], limit: usize) -> (Vec<String>, Vec<String>, String, bool) {
    let goal = Rc::new(goal);
    let sn = suiron::make_base_node(Rc::clone(&goal), kb);
    let _ = capture::take();
    let (mut strings, mut outs) = (vec![], vec![]);
    loop {
        match suiron::next_solution(Rc::clone(&sn)) {
            Some(ss) => {
                let (_, _, display) = decode_answer(&goal, &ss);
                strings.push(fmt_solution(qargs, &display));
                outs.push(capture::take());
                if strings.len() > limit { return (strings, outs, String::new(), true); }
            }
            None => return (strings, outs, capture::take(), false),
        }
    }
}

#[derive(Clone, Debug)]
enum Step {
    Partial { other: bool, k: u32 },
    Exhaust { other: bool, reasks: u32 },
    Solve { other: bool, k: u32 },
    SolveAll { other: bool },
    CheapTimeout,
    Unknown,
    /// rules for n new, unrelated predicates are added to the knowledge base between two queries
    Grow { n: u32 },
    /// a query on one of the same predicates is run against ANOTHER knowledge base that is alive in the same process
    /// (same predicate names, a different number of clauses, facts only); mode 0 next_solution to the end, 1 solve, 2 solve_all
    Foreign { other: bool, mode: u32 },
}

impl QueryProp {
    // ------------------------------------------------------------------ C22
    fn history(&self, s: &mut dyn Src, rep: &mut Report) -> CaseResult {
        // the history is drawn before the program: a choice sequence that the program generator uses up
        // would otherwise leave only the simplest history (exhausted sources draw 0)
        let n = 1 + s.draw(5);
        let mut steps = vec![];
        for _ in 0..n {
            let other = chance(s, 1, 3);
            steps.push(match weighted(s, &[3, 2, 2, 2, 2, 3, 1, 1, 2]) {
                0 => Step::Partial { other, k: 1 + s.draw(3) },
                1 => Step::Exhaust { other, reasks: 0 },
                2 => Step::Exhaust { other, reasks: 1 + s.draw(2) },
                3 => Step::Solve { other, k: 1 + s.draw(4) },
                4 => Step::SolveAll { other },
                5 => Step::CheapTimeout,
                6 => Step::Unknown,
                7 => Step::Grow { n: 1 + s.draw(24) },
                _ => Step::Foreign { other, mode: s.draw(3) },
            });
        }
        let final_mode = s.draw(3);
        let qstyle = s.draw(4);
        // rarely (each costs 1.1 s): the caller of the final query pauses for more than the timer period
        // between two answers, so a timer left behind by any earlier query fires while this one is live
        let pause = final_mode == 0 && s.draw(250) == 249;
        let feat = Features { cut: true, not: true, output: true, anon: true, alias_heavy: false };
        let (p, _) = gen_any_program(s, feat);
        self.run_history(&p, &steps, final_mode, pause, qstyle, rep)
    }

    fn run_history(&self, p: &Program, steps: &[Step], final_mode: u32, pause: bool, qstyle: u32, rep: &mut Report) -> CaseResult {
        let reference = solve_program(p, Limits::default());
        if reference.status != Status::Finished { return CaseResult::Discard("reference did not finish / out of domain".into()); }
        let expected: Vec<Vec<Term>> = reference.answers().into_iter().cloned().collect();
        let case = format!("{}\nearlier queries: {:?}\nfinal query built with {} and run with mode {}{}", p, steps, ["make_query", "parse_query(name(args))", "parse_query(name(args).)", "parse_query (bare name when it has no arguments)"][qstyle as usize], ["next_solution", "solve", "solve_all"][final_mode as usize],
                           if pause { ", its caller sleeping 1.1 s after the query was built and its first answer (or None) was returned" } else { "" });
        // another query on the same knowledge base: the first user predicate, all arguments fresh
        let other_q: (String, Vec<Term>) = {
            let c = &p.clauses[p.clauses.len() / 2];
            (c.name.clone(), (0..c.args.len()).map(|i| Term::Var(format!("$O{}", i))).collect())
        };
        // the other query must itself be a terminating, in-domain query; otherwise only the main query is used
        let other_ref = solve_program(&Program { clauses: p.clauses.clone(), qname: other_q.0.clone(), qargs: other_q.1.clone() }, Limits::default());
        let other_ok = other_ref.status == Status::Finished;
        let steps: Vec<Step> = steps.iter().map(|st| match st {
            Step::Partial { k, .. } if !other_ok => Step::Partial { other: false, k: *k },
            Step::Exhaust { reasks, .. } if !other_ok => Step::Exhaust { other: false, reasks: *reasks },
            Step::Solve { k, .. } if !other_ok => Step::Solve { other: false, k: *k },
            Step::SolveAll { .. } if !other_ok => Step::SolveAll { other: false },
            x => x.clone(),
        }).collect();
        let steps = &steps[..];
        let budget = (crate::props::solver::tick_budget(reference.stats.steps) + crate::props::solver::tick_budget(other_ref.stats.steps)) * (steps.len() as u64 + 3);
        let limit = expected.len() + 5;
        let r = guarded(budget, || -> Result<(Vec<String>, Vec<String>), CaseResult> {
            suiron::start_query();
            let mut kb = build_kb(&p.clauses);
            // the other knowledge base: every predicate of the program, one more clause than in `kb`, facts only
            let kb2 = if steps.iter().any(|x| matches!(x, Step::Foreign { .. })) {
                let mut counts: Vec<((String, usize), usize)> = vec![];
                for c in &p.clauses { let key = (c.name.clone(), c.args.len()); match counts.iter_mut().find(|(k, _)| *k == key) { Some(e) => e.1 += 1, None => counts.push((key, 1)) } }
                let mut facts = vec![];
                for ((name, ar), n) in counts { for i in 0..n + 1 { facts.push(Clause { name: name.clone(), args: (0..ar).map(|j| Term::atom(&format!("zz{}_{}", i, j))).collect(), body: None }); } }
                Some(build_kb(&facts))
            } else { None };
            let mut grown = 0u32;
            // baseline: the query as the first thing that happens
            let (b_strings, b_outs, b_tail, trunc) = enumerate(&kb, mk_query(&p.qname, &p.qargs), &p.qargs, limit);
            if trunc || b_strings.len() != expected.len() { return Err(CaseResult::Discard("baseline differs from the reference (C01's business)".into())); }
            // history
            for st in steps {
                let pick_q = |other: bool| -> (suiron::Goal, Vec<Term>) { if other { (mk_query_styled(&other_q.0, &other_q.1, (qstyle + 1) % 4), other_q.1.clone()) } else { (mk_query_styled(&p.qname, &p.qargs, (qstyle + 2) % 4), p.qargs.clone()) } };
                match st {
                    Step::Partial { other, k } => {
                        let (g, _) = pick_q(*other);
                        let sn = suiron::make_base_node(Rc::new(g), &kb);
                        for _ in 0..*k { if suiron::next_solution(Rc::clone(&sn)).is_none() { break; } }
                    }
                    Step::Exhaust { other, reasks } => {
                        let (g, _) = pick_q(*other);
                        let sn = suiron::make_base_node(Rc::new(g), &kb);
                        let mut n = 0;
                        while suiron::next_solution(Rc::clone(&sn)).is_some() { n += 1; if n > 300 { break; } }
                        for _ in 0..*reasks { let _ = suiron::next_solution(Rc::clone(&sn)); }
                    }
                    Step::Solve { other, k } => {
                        let (g, _) = pick_q(*other);
                        let sn = suiron::make_base_node(Rc::new(g), &kb);
                        for _ in 0..*k { let _ = suiron::solve(Rc::clone(&sn)); }
                    }
                    Step::SolveAll { other } => {
                        let (g, _) = pick_q(*other);
                        let sn = suiron::make_base_node(Rc::new(g), &kb);
                        let _ = suiron::solve_all(sn);
                    }
                    Step::CheapTimeout => {
                        // exactly what solve() does when its query runs out of time: the timer fires, then it is cancelled
                        let t = suiron::start_query_timer(1);
                        let t0 = Instant::now();
                        while !suiron::query_stopped() && t0.elapsed() < Duration::from_millis(500) { std::thread::sleep(Duration::from_micros(200)); }
                        suiron::cancel_timer(t);
                    }
                    Step::Unknown => {
                        let sn = suiron::make_base_node(Rc::new(mk_query("no_such_predicate", &[Term::var("$Z")])), &kb);
                        let _ = suiron::next_solution(sn);
                    }
                    Step::Foreign { other, mode } => {
                        let (g, _) = pick_q(*other);
                        let kb2 = kb2.as_ref().unwrap();
                        let sn = suiron::make_base_node(Rc::new(g), kb2);
                        match mode {
                            0 => { let mut n = 0; while suiron::next_solution(Rc::clone(&sn)).is_some() { n += 1; if n > 300 { break; } } }
                            1 => { let _ = suiron::solve(Rc::clone(&sn)); }
                            _ => { let _ = suiron::solve_all(sn); }
                        }
                    }
                    Step::Grow { n } => {
                        // no query is live here (every node above has been dropped), so the knowledge base may be extended
                        for _ in 0..*n {
                            grown += 1;
                            let head = U::SComplex(vec![U::Atom(format!("zz_added_{}", grown)), U::SInteger(grown as i64)]);
                            suiron::add_rules(&mut kb, vec![suiron::make_fact(head)]);
                        }
                    }
                }
            }
            let _ = capture::take();
            // the query under test, built with a query constructor
            let (strings, outs): (Vec<String>, Vec<String>) = match final_mode {
                0 if pause => {
                    // enumerate by hand: first answer, 1.1 s of doing nothing, the rest
                    let goal = Rc::new(mk_query_styled(&p.qname, &p.qargs, qstyle));
                    let sn = suiron::make_base_node(Rc::clone(&goal), &kb);
                    let (mut s2, mut o2) = (vec![], vec![]);
                    let mut first = true;
                    loop {
                        let r = suiron::next_solution(Rc::clone(&sn));
                        if first { first = false; std::thread::sleep(Duration::from_millis(1100)); }
                        match r {
                            Some(ss) => { let (_, _, display) = decode_answer(&goal, &ss); s2.push(fmt_solution(&p.qargs, &display)); o2.push(capture::take()); if s2.len() > limit { break; } }
                            None => { o2.push(capture::take()); break; }
                        }
                    }
                    (s2, o2)
                }
                0 => {
                    let (s2, o2, t2, _) = enumerate(&kb, mk_query_styled(&p.qname, &p.qargs, qstyle), &p.qargs, limit);
                    let mut o = o2; o.push(t2); (s2, o)
                }
                1 => {
                    let sn = suiron::make_base_node(Rc::new(mk_query_styled(&p.qname, &p.qargs, qstyle)), &kb);
                    let mut v = vec![];
                    loop { let r = suiron::solve(Rc::clone(&sn)); if r == NO_MORE || r == TIMEOUT_MSG || v.len() > limit { if r == TIMEOUT_MSG { v.push(r); } break; } v.push(r); }
                    (v, vec![capture::take()])
                }
                _ => {
                    let sn = suiron::make_base_node(Rc::new(mk_query_styled(&p.qname, &p.qargs, qstyle)), &kb);
                    let v = suiron::solve_all(sn);
                    (v, vec![capture::take()])
                }
            };
            // compare with the baseline
            if strings.last().map_or(false, |x| x == TIMEOUT_MSG) { return Err(CaseResult::Discard("final query hit the real 1 s timer (machine overloaded): inconclusive".into())); }
            if strings != b_strings {
                return Err(fail(self.id, "answers-depend-on-history", format!("as first query: {:?}\nafter the earlier queries: {:?}", b_strings, strings), case.clone()));
            }
            let all_b: String = b_outs.concat() + &b_tail;
            let all_f: String = outs.concat();
            if all_b != all_f {
                return Err(fail(self.id, "output-depends-on-history", format!("as first query: {:?}\nafter the earlier queries: {:?}", all_b, all_f), case.clone()));
            }
            Ok((strings, outs))
        });
        match r {
            Ok(Ok((strings, _))) => {
                let partial = steps.iter().any(|x| matches!(x, Step::Partial { .. } | Step::Solve { .. } | Step::CheapTimeout));
                if steps.iter().any(|x| matches!(x, Step::CheapTimeout)) { rep.class("history-contains-timed-out-query"); }
                if steps.iter().any(|x| matches!(x, Step::Partial { .. })) { rep.class("history-contains-abandoned-query"); }
                if steps.iter().any(|x| matches!(x, Step::Exhaust { reasks, .. } if *reasks > 0)) { rep.class("history-contains-re-asked-query"); }
                rep.class(&format!("final-mode:{}", ["next_solution", "solve", "solve_all"][final_mode as usize]));
                if pause { rep.class("final-query-paused-1.1s-between-answers"); }
                if steps.iter().any(|x| matches!(x, Step::Grow { .. })) { rep.class("history-adds-rules-to-the-knowledge-base"); }
                if steps.iter().any(|x| matches!(x, Step::Foreign { .. })) { rep.class("history-queries-another-knowledge-base-with-the-same-predicates"); }
                rep.class(if qstyle == 0 { "final-query:make_query" } else { "final-query:parse_query" });
                if p.qargs.is_empty() { rep.class("final-query-has-no-arguments"); }
                if steps.iter().any(|x| matches!(x, Step::Solve { .. })) { rep.class("history-contains-solve-calls"); }
                if partial && !strings.is_empty() { rep.nontrivial(fnv(&case)); rep.sample(json!({"program": format!("{}", p), "earlier": format!("{:?}", steps), "answers": strings})); }
                CaseResult::Pass
            }
            Ok(Err(c)) => c,
            Err(e) => fail(self.id, "engine-failure", format!("{:?}", e), case),
        }
    }

    // ------------------------------------------------------------------ C23
    fn fast(&self, s: &mut dyn Src, rep: &mut Report) -> CaseResult {
        // 0: nothing special; 1: the nodes given to solve_all / solve were made before another query timed out
        // (its timer fired and was cancelled, as solve() does); 2: the same, with the timeout after solve_all
        let stale = match s.draw(6) { 0 => 1, 1 => 2, _ => 0 };
        // the mixed run at the end: this many solve() calls, then solve_all() on the same node for the rest
        let mixed_j = 1 + s.draw(3) as usize;
        let feat = Features { cut: true, not: true, output: false, anon: true, alias_heavy: false };
        let (p, _) = gen_any_program(s, feat);
        let reference = solve_program(&p, Limits::default());
        if reference.status != Status::Finished { return CaseResult::Discard("reference did not finish / out of domain".into()); }
        let expected: Vec<Vec<Term>> = reference.answers().into_iter().cloned().collect();
        let case = format!("{}", p);
        let r = guarded(crate::props::solver::tick_budget(reference.stats.steps) * 4, || -> Result<usize, CaseResult> {
            suiron::start_query();
            let kb = build_kb(&p.clauses);
            let (want, _, _, trunc) = enumerate(&kb, mk_query(&p.qname, &p.qargs), &p.qargs, expected.len() + 5);
            if trunc || want.len() != expected.len() { return Err(CaseResult::Discard("baseline differs from the reference (C01's business)".into())); }
            // solve_all
            let sn = suiron::make_base_node(Rc::new(mk_query(&p.qname, &p.qargs)), &kb);
            let sn_for_solve = suiron::make_base_node(Rc::new(mk_query(&p.qname, &p.qargs)), &kb);
            let timed_out_query = || {
                let t = suiron::start_query_timer(1);
                let t0 = Instant::now();
                while !suiron::query_stopped() && t0.elapsed() < Duration::from_millis(500) { std::thread::sleep(Duration::from_micros(200)); }
                suiron::cancel_timer(t);
            };
            if stale == 1 { timed_out_query(); }
            let t0 = Instant::now();
            let all = suiron::solve_all(sn);
            let el = t0.elapsed();
            if all.last().map_or(false, |x| x == TIMEOUT_MSG) {
                if el < Duration::from_millis(500) { return Err(fail(self.id, "false-timeout", format!("solve_all reported a timeout after {:?}: {:?}", el, all), case.clone())); }
                return Err(CaseResult::Discard("fast query took > 0.5 s of wall time (machine overloaded): inconclusive".into()));
            }
            let norm = |v: &Vec<String>| -> Vec<String> { if stale != 0 { v.iter().map(|x| strip_var_numbers(x)).collect() } else { v.clone() } };
            if norm(&all) != norm(&want) { return Err(fail(self.id, "solve_all-wrong", format!("answers: {:?}\nsolve_all: {:?}", want, all), case.clone())); }
            // solve, one answer at a time
            if stale == 2 { timed_out_query(); }
            let sn = if stale != 0 { sn_for_solve } else { suiron::make_base_node(Rc::new(mk_query(&p.qname, &p.qargs)), &kb) };
            let mut got = vec![];
            loop {
                let t0 = Instant::now();
                let r = suiron::solve(Rc::clone(&sn));
                let el = t0.elapsed();
                if r == TIMEOUT_MSG {
                    if el < Duration::from_millis(500) { return Err(fail(self.id, "false-timeout", format!("solve reported a timeout after {:?} (answers so far {:?})", el, got), case.clone())); }
                    return Err(CaseResult::Discard("fast query took > 0.5 s of wall time (machine overloaded): inconclusive".into()));
                }
                let done = r == NO_MORE;
                got.push(r);
                if done || got.len() > want.len() + 2 { break; }
            }
            let mut want2 = want.clone(); want2.push(NO_MORE.to_string());
            if norm(&got) != norm(&want2) { return Err(fail(self.id, "solve-wrong", format!("expected {:?}\nsolve gave {:?}", want2, got), case.clone())); }
            // mixed: the first j answers one at a time with solve(), the rest with solve_all() on the same node
            // (variable numbers in displayed unbound variables are not compared: the node is not the first one made)
            let j = mixed_j.min(want.len());
            if j > 0 {
                let sn = suiron::make_base_node(Rc::new(mk_query(&p.qname, &p.qargs)), &kb);
                let mut seq = vec![];
                let t0 = Instant::now();
                for _ in 0..j { seq.push(suiron::solve(Rc::clone(&sn))); }
                seq.extend(suiron::solve_all(sn));
                if seq.iter().any(|x| x == TIMEOUT_MSG) {
                    if t0.elapsed() < Duration::from_millis(500) { return Err(fail(self.id, "false-timeout", format!("{} solve calls then solve_all reported a timeout after {:?}: {:?}", j, t0.elapsed(), seq), case.clone())); }
                    return Err(CaseResult::Discard("fast query took > 0.5 s of wall time (machine overloaded): inconclusive".into()));
                }
                let strip = |v: &Vec<String>| -> Vec<String> { v.iter().map(|x| strip_var_numbers(x)).collect() };
                if strip(&seq) != strip(&want) { return Err(fail(self.id, "solve-then-solve_all-wrong", format!("answers: {:?}\n{} solve calls followed by solve_all on the same node: {:?}", want, j, seq), case.clone())); }
            }
            Ok(want.len())
        });
        match r {
            Ok(Ok(n)) => { rep.class("class:fast"); if stale != 0 { rep.class("fast:nodes-made-before-another-query-timed-out"); } if n >= 2 { rep.nontrivial(fnv(&case)); rep.sample(json!({"program": case, "answers": n})); } CaseResult::Pass }
            Ok(Err(c)) => c,
            Err(e) => fail(self.id, "engine-failure", format!("{:?}", e), case),
        }
    }

    /// The harness plays the timer thread: stop_query() (all the timer callback does) is called on entry
    /// to the k-th next_solution of a solve_all / solve run over a generated program, for several k.
    fn simulated(&self, s: &mut dyn Src, rep: &mut Report) -> CaseResult {
        let ks: Vec<u32> = (0..4).map(|_| s.draw(1024)).collect();
        let use_solve = chance(s, 1, 3);
        let feat = Features { cut: true, not: true, output: false, anon: true, alias_heavy: false };
        let (p, _) = gen_any_program(s, feat);
        let reference = solve_program(&p, Limits::default());
        if reference.status != Status::Finished { return CaseResult::Discard("reference did not finish / out of domain".into()); }
        let expected: Vec<Vec<Term>> = reference.answers().into_iter().cloned().collect();
        let case0 = format!("{}", p);
        let mut fired = 0u32;
        let mut lost_after_not = false;
        let r = guarded(crate::props::solver::tick_budget(reference.stats.steps) * 8, || -> Result<(), CaseResult> {
            suiron::start_query();
            let kb = build_kb(&p.clauses);
            let (want, _, _, trunc) = enumerate(&kb, mk_query(&p.qname, &p.qargs), &p.qargs, expected.len() + 5);
            if trunc || want.len() != expected.len() { return Err(CaseResult::Discard("baseline differs from the reference (C01's business)".into())); }
            // how many next_solution entries does an undisturbed run take?
            let t_before = ticks();
            let sn = suiron::make_base_node(Rc::new(mk_query(&p.qname, &p.qargs)), &kb);
            if use_solve { let mut n = 0; while suiron::solve(Rc::clone(&sn)) != NO_MORE { n += 1; if n > want.len() + 2 { break; } } } else { let _ = suiron::solve_all(sn); }
            let used = ticks() - t_before;
            for kf in &ks {
                let k = 1 + (*kf as u64 * (used + 1)) / 1024; // 1..=used+1 (used+1: the timer never fires)
                let case = format!("{}\nstop_query() called (as the timer thread does) on entry to next_solution number {} of {} during {}", case0, k, used, if use_solve { "successive solve calls" } else { "solve_all" });
                let sn = suiron::make_base_node(Rc::new(mk_query(&p.qname, &p.qargs)), &kb);
                let t0 = Instant::now();
                stop_at_tick(ticks() + k);
                if use_solve {
                    let mut got: Vec<String> = vec![];
                    let mut end = "";
                    loop {
                        let before = stop_injected();
                        let r = suiron::solve(Rc::clone(&sn));
                        let during = stop_injected() && !before;
                        if r == TIMEOUT_MSG {
                            if !during && t0.elapsed() < Duration::from_millis(500) { stop_at_tick(0); return Err(fail(self.id, "false-timeout", format!("solve reported a timeout although the timer did not fire during that call; answers so far {:?}", got), case)); }
                            end = "timeout"; break;
                        }
                        if r == NO_MORE { end = "no-more"; break; }
                        got.push(r);
                        if got.len() > want.len() + 2 { break; }
                    }
                    stop_at_tick(0);
                    if end == "timeout" {
                        // the user asks the timed-out node again (the query program's loop does): whatever comes back must be
                        // the timeout message, `No more.`, or one of the query's answers - never something the query does not have
                        for _ in 0..2 {
                            let again = suiron::solve(Rc::clone(&sn));
                            if again == TIMEOUT_MSG {
                                if t0.elapsed() < Duration::from_millis(500) { return Err(fail(self.id, "false-timeout", "asked again after a timeout: timeout message at once".into(), case)); }
                                break;
                            }
                            if again == NO_MORE { break; }
                            if !want.contains(&again) { return Err(fail(self.id, "not-an-answer", format!("asked again after a timeout: {:?} is not among the answers {:?}", again, want), case)); }
                        }
                    }
                    if got.len() > want.len() || got[..] != want[..got.len()] { return Err(fail(self.id, "not-a-prefix-of-the-answers", format!("answers: {:?}\nsolve returned: {:?} then {}", want, got, end), case)); }
                    if end == "no-more" && got.len() != want.len() { return Err(fail(self.id, "incomplete-without-timeout", format!("answers: {:?}\nsolve returned: {:?} then `No more.`", want, got), case)); }
                    if end == "timeout" { fired += 1; }
                } else {
                    let mut v = suiron::solve_all(sn);
                    let injected = stop_injected();
                    stop_at_tick(0);
                    let to = v.last().map_or(false, |x| x == TIMEOUT_MSG);
                    if to { v.pop(); }
                    if v.iter().any(|x| x == TIMEOUT_MSG) { return Err(fail(self.id, "timeout-message-not-last", format!("{:?}", v), case)); }
                    if to && !injected {
                        if t0.elapsed() < Duration::from_millis(500) { return Err(fail(self.id, "false-timeout", format!("solve_all reported a timeout although the timer never fired: {:?}", v), case)); }
                        return Err(CaseResult::Discard("fast query took > 0.5 s of wall time (machine overloaded): inconclusive".into()));
                    }
                    if v.len() > want.len() || v[..] != want[..v.len()] { return Err(fail(self.id, "not-a-prefix-of-the-answers", format!("answers: {:?}\nreported: {:?}{}", want, v, if to { " + timeout message" } else { "" }), case)); }
                    if !to && v.len() != want.len() { return Err(fail(self.id, "incomplete-without-timeout", format!("no timeout message but answers are missing\nanswers: {:?}\nreported: {:?}", want, v), case)); }
                    if to { fired += 1; if v.len() < want.len() { lost_after_not = true; } }
                }
            }
            Ok(())
        });
        let was_injected = stop_injected();
        stop_at_tick(0);
        match r {
            Ok(Ok(())) => {
                rep.class("class:timer-fires-at-step-k");
                rep.class_n("simulated:timer-fired", fired as u64);
                rep.class_n("simulated:timer-never-fired", 4 - fired as u64);
                let has_not = p.clauses.iter().any(|c| c.body.as_ref().map_or(false, |b| b.any(&|g| matches!(g, Goal::Not(_)))));
                if has_not && fired > 0 { rep.class("simulated:program-with-not"); }
                if fired > 0 && lost_after_not && expected.len() >= 1 { rep.nontrivial(fnv(&format!("{}{:?}", case0, ks))); rep.sample(json!({"program": case0, "timer_fired_in": fired, "of": 4})); }
                CaseResult::Pass
            }
            Ok(Err(c)) => c,
            // a search that was cut short can go down a path the real search never takes (e.g. a clause after a cut
            // which did not get to run) and unify terms there that would need an occurs check: outside every claim
            Err(EngineFail::Cycle { .. }) if was_injected => CaseResult::Discard("occurs-check situation on a path only the cut-short search takes".into()),
            Err(e) => fail(self.id, "engine-failure", format!("{:?}", e), case0),
        }
    }

    /// A query whose search burns n^depth resolution steps between its early and late answers.
    fn slow(&self, n: u32, depth: u32, variant: u32, use_solve: bool, rep: &mut Report) -> CaseResult {
        let vars: Vec<String> = (0..depth).map(|i| format!("$A{}", i)).collect();
        let gens: Vec<String> = vars.iter().map(|v| format!("d({})", v)).collect();
        let mut text = String::new();
        for i in 1..=n { text.push_str(&format!("d({}). ", i)); }
        text.push_str("early(e1). early(e2). mid(m1). late(z1). late(z2). ");
        let mut expected: Vec<String> = vec!["$X = e1".into(), "$X = e2".into()];
        match variant {
            0 => { text.push_str(&format!("burn :- {}, fail. q($X) :- early($X). q($X) :- burn, mid($X). q($X) :- late($X). ", gens.join(", "))); }
            1 => { text.push_str(&format!("burn :- {}, fail. q($X) :- early($X). q($X) :- not(burn), mid($X). q($X) :- late($X). ", gens.join(", "))); expected.push("$X = m1".into()); }
            3 | 4 => {
                // not(G) with G provable, but only by the very last combination: when the timer cuts the search of G
                // short, G fails and not(G) succeeds - an answer the query does not have, which must not be reported
                text.push_str(&format!("all_n({}). slowtrue :- {}, all_n({}). ", (0..depth).map(|_| n.to_string()).collect::<Vec<_>>().join(", "), gens.join(", "), vars.join(", ")));
                if variant == 3 { text.push_str("q($X) :- early($X). q($X) :- not(slowtrue), $X = m1. q($X) :- late($X). "); }
                else { text.push_str("q($X) :- early($X). q(m1) :- not(slowtrue). q($X) :- late($X). "); }
            }
            5 => {
                // as 3, but the clause with not(...) is the *last* clause of q: nothing is tried after it, so what the
                // node remembers of that clause is what a later request on the same node resumes
                text.push_str(&format!("all_n({}). slowtrue :- {}, all_n({}). ", (0..depth).map(|_| n.to_string()).collect::<Vec<_>>().join(", "), gens.join(", "), vars.join(", ")));
                text.push_str("q($X) :- early($X). q($X) :- late($X). q($X) :- mid($X), not(slowtrue), $Y = $X. ");
                expected.push("$X = z1".into()); expected.push("$X = z2".into());
            }
            _ => {
                // answers appear inside the loop: when all generators agree on 1, on n/2 (if > 1) and on n
                let mut ks = vec![1u32]; if n / 2 > 1 { ks.push(n / 2); } if n > 1 && n != n / 2 { ks.push(n); }
                for k in &ks { text.push_str(&format!("hit({}, {}). ", (0..depth).map(|_| k.to_string()).collect::<Vec<_>>().join(", "), k)); expected.push(format!("$X = {}", k)); }
                text.push_str(&format!("q($X) :- early($X). q($X) :- {}, hit({}, $X). q($X) :- late($X). ", gens.join(", "), vars.join(", ")));
            }
        }
        if variant != 5 { expected.push("$X = z1".into()); expected.push("$X = z2".into()); }
        text.push_str("?- q($X).");
        let p = match parse_program(&text) { Ok(p) => p, Err(e) => panic!("harness: slow program does not parse: {}", e) };
        let case = format!("slow query: n = {} facts, {} nested generators, variant {}, via {}\n{}", n, depth, ["burn", "not(burn)", "answers-in-loop", "not(provable-at-the-end), then =", "not(provable-at-the-end) as last goal", "not(provable-at-the-end) in the last clause"][variant as usize], if use_solve { "solve" } else { "solve_all" },
                           text.split(". ").filter(|l| !l.starts_with("d(")).collect::<Vec<_>>().join(". "));
        let r = guarded(u64::MAX, || -> Result<(bool, f64), CaseResult> {
            suiron::start_query();
            let kb = build_kb(&p.clauses);
            let sn = suiron::make_base_node(Rc::new(mk_query("q", &[Term::var("$X")])), &kb);
            let t0 = Instant::now();
            let (got, timed_out, last_call): (Vec<String>, bool, f64) = if use_solve {
                let mut v = vec![]; let mut to = false; let mut last = 0.0;
                loop {
                    let c0 = Instant::now();
                    let r = suiron::solve(Rc::clone(&sn));
                    last = c0.elapsed().as_secs_f64();
                    if r == TIMEOUT_MSG { to = true; break; }
                    let done = r == NO_MORE;
                    if !done { v.push(r); }
                    if done || v.len() > expected.len() + 2 { break; }
                }
                if to {
                    // the user asks the same node again (what the query program's loop does): whatever comes back, another
                    // timeout message needs another second of searching, and an answer must be one of the query's answers
                    let c1 = Instant::now();
                    let again = suiron::solve(Rc::clone(&sn));
                    let el = c1.elapsed().as_secs_f64();
                    if again == TIMEOUT_MSG && el < 0.95 { return Err(fail(self.id, "false-timeout", format!("asked again after a timeout: timeout message after only {:.3} s (the limit is 1 s)", el), case.clone())); }
                    if again != TIMEOUT_MSG && again != NO_MORE && !expected.contains(&again) { return Err(fail(self.id, "not-an-answer", format!("asked again after a timeout: {:?} is not among the answers {:?}", again, expected), case.clone())); }
                }
                (v, to, last)
            } else {
                let mut v = suiron::solve_all(sn);
                let to = v.last().map_or(false, |x| x == TIMEOUT_MSG);
                if to { v.pop(); }
                if v.iter().any(|x| x == TIMEOUT_MSG) { return Err(fail(self.id, "timeout-message-not-last", format!("{:?}", v), case.clone())); }
                (v, to, t0.elapsed().as_secs_f64())
            };
            let total = t0.elapsed().as_secs_f64();
            // a prefix of the real answers, in order
            if got.len() > expected.len() || got[..] != expected[..got.len()] {
                return Err(fail(self.id, "not-a-prefix-of-the-answers", format!("answers: {:?}\nreported: {:?}{}", expected, got, if timed_out { " + timeout message" } else { "" }), case.clone()));
            }
            if !timed_out && got.len() != expected.len() {
                return Err(fail(self.id, "incomplete-without-timeout", format!("search ended after {:.2} s without a timeout message but answers are missing\nanswers: {:?}\nreported: {:?}", total, expected, got), case.clone()));
            }
            if timed_out && last_call < 0.95 {
                return Err(fail(self.id, "false-timeout", format!("timeout message after only {:.3} s (the limit is 1 s)", last_call), case.clone()));
            }
            Ok((timed_out, total))
        });
        match r {
            Ok(Ok((timed_out, total))) => {
                rep.class("class:slow");
                rep.class(if timed_out { "slow:timer-fired" } else { "slow:finished-within-limit" });
                if timed_out { rep.nontrivial(fnv(&case)); rep.sample(json!({"case": case.lines().next().unwrap_or(""), "elapsed_s": (total * 100.0).round() / 100.0, "timed_out": true})); }
                CaseResult::Pass
            }
            Ok(Err(c)) => c,
            Err(e) => fail(self.id, "engine-failure", format!("{:?}", e), case),
        }
    }

    /// Queries that finish within microseconds must not leave a live timer behind that stops a later query.
    fn stray_timer(&self, rounds: usize, last_kind: usize, rep: &mut Report) -> CaseResult {
        let p = parse_program("q(1). q(2). q(3). c(1) :- !. c(2). ?- q($X).").unwrap();
        let case = format!("{} fast solve_all / solve calls on `q(1). q(2). q(3).` ending in every possible way (all answers, first answer, `No more.`, re-asked, no answer, unknown predicate, re-asked after a cut closed the query, re-asked after a time-out closed it), the last one of kind {}, then 1.3 s of waiting, then the same query again", rounds, last_kind % 8);
        let r = guarded(u64::MAX, || -> Result<(), CaseResult> {
            suiron::start_query();
            let kb = build_kb(&p.clauses);
            for i in 0..=rounds {
                // every way a solve / solve_all call can end; the last call (whose timer no later call invalidates) is of kind `last_kind`
                match if i == rounds { last_kind % 8 } else { i % 8 } {
                    0 => { let sn = suiron::make_base_node(Rc::new(mk_query("q", &[Term::var("$X")])), &kb); let _ = suiron::solve_all(sn); }
                    1 => { let sn = suiron::make_base_node(Rc::new(mk_query("q", &[Term::var("$X")])), &kb); let _ = suiron::solve(sn); }
                    2 => {
                        // answers, then `No more.`, then asked again
                        let sn = suiron::make_base_node(Rc::new(mk_query("q", &[Term::var("$X")])), &kb);
                        let mut n = 0; while suiron::solve(Rc::clone(&sn)) != NO_MORE { n += 1; if n > 5 { break; } }
                        let _ = suiron::solve(Rc::clone(&sn));
                    }
                    3 => { let sn = suiron::make_base_node(Rc::new(mk_query("q", &[Term::Int(9)])), &kb); let _ = suiron::solve_all(sn); }
                    4 => { let sn = suiron::make_base_node(Rc::new(mk_query("q", &[Term::Int(9)])), &kb); let _ = suiron::solve(sn); }
                    5 => { let sn = suiron::make_base_node(Rc::new(mk_query("no_such_predicate", &[Term::var("$X")])), &kb); let _ = suiron::solve_all(sn); }
                    6 => {
                        // a query closed by a cut (the clause that answered it cut), asked again twice
                        let sn = suiron::make_base_node(Rc::new(mk_query("c", &[Term::var("$X")])), &kb);
                        for _ in 0..3 { let _ = suiron::solve(Rc::clone(&sn)); }
                    }
                    _ => {
                        // a query closed by a time-out (the harness plays the timer on entry to its first node), asked again
                        let sn = suiron::make_base_node(Rc::new(mk_query("q", &[Term::var("$X")])), &kb);
                        stop_at_tick(ticks() + 1);
                        let first = suiron::solve(Rc::clone(&sn));
                        stop_at_tick(0);
                        if first != TIMEOUT_MSG { return Err(fail(self.id, "no-timeout-message", format!("the stop flag was raised during solve, which returned {:?}", first), case.clone())); }
                        for _ in 0..2 { let _ = suiron::solve(Rc::clone(&sn)); }
                    }
                }
            }
            // a query that is being enumerated slowly by its caller (no timer of its own)
            let sn = suiron::make_base_node(Rc::new(mk_query("q", &[Term::var("$X")])), &kb);
            let first = suiron::next_solution(Rc::clone(&sn)).is_some();
            std::thread::sleep(Duration::from_millis(1300));
            let stopped = suiron::query_stopped();
            let sn2 = suiron::make_base_node(Rc::new(mk_query("q", &[Term::var("$X")])), &kb);
            let mut n = 0; while suiron::next_solution(Rc::clone(&sn2)).is_some() { n += 1; if n > 10 { break; } }
            if stopped || n != 3 || !first {
                return Err(fail(self.id, "stray-timer-stopped-a-later-query", format!("query_stopped() = {} one second after the last fast query; the next query found {} of 3 answers", stopped, n), case.clone()));
            }
            Ok(())
        });
        match r {
            Ok(Ok(())) => { rep.class("class:stray-timer-round"); rep.nontrivial(fnv(&format!("{}{}", case, rep.evaluations))); CaseResult::Pass }
            Ok(Err(c)) => c,
            Err(e) => fail(self.id, "engine-failure", format!("{:?}", e), case),
        }
    }
}

/// Seconds the engine needs for 8^5 iterations of the burn loop (calibration).
fn calibrate() -> f64 {
    let mut text = String::new();
    for i in 1..=8 { text.push_str(&format!("d({}). ", i)); }
    text.push_str("burn :- d($A), d($B), d($C), d($D), d($E), fail. q(x) :- burn. ?- q($X).");
    let p = parse_program(&text).unwrap();
    let t0 = Instant::now();
    let _ = guarded(u64::MAX, || { suiron::start_query(); let kb = build_kb(&p.clauses); let sn = suiron::make_base_node(Rc::new(mk_query("q", &[Term::var("$X")])), &kb); suiron::next_solution(sn).is_some() });
    t0.elapsed().as_secs_f64().max(1e-4)
}

impl Property for QueryProp {
    fn id(&self) -> &'static str { self.id }
    fn max_len(&self) -> usize { 256 }
    // cases with real timers cost seconds each, and so does every shrink step on them
    fn max_shrink_iters(&self) -> u32 { match self.aspect { QAspect::History => 400, QAspect::Timeout => 60 } }
    // C23 thorough is bounded by memory, not time: the engine's node trees are reference cycles and a
    // query that runs into the 1 s limit leaks tens of MB, so 2500 cases x 16 workers exceeded the
    // machine's 62 GB (workers were OOM-killed: inconclusive). 600 cases stay near 2 GB per worker.
    fn budget(&self) -> (u64, u64) { match self.aspect { QAspect::History => (1500, 40_000), QAspect::Timeout => (600, 2400) } }

    fn check(&self, s: &mut dyn Src, rep: &mut Report) -> CaseResult {
        match self.aspect {
            QAspect::History => self.history(s, rep),
            QAspect::Timeout => match weighted(s, &[200, 5, 2, 400]) {
                0 => self.fast(s, rep),
                3 => self.simulated(s, rep),
                1 => {
                    // sizes on both sides of the 1 s limit
                    let t8 = calibrate();
                    let target = [0.15, 0.4, 0.8, 1.2, 1.6, 2.5][s.draw(6) as usize];
                    let n = (8.0 * (target / t8).powf(0.2)).round().max(2.0).min(60.0) as u32;
                    self.slow(n, 5, [0, 1, 2, 3, 4, 5, 5][s.draw(7) as usize], chance(s, 1, 2), rep)
                }
                _ => { let n = 300 + 500 * s.draw(4) as usize; let k = s.draw(8) as usize; self.stray_timer(n, k, rep) },
            },
        }
    }

    fn fixed(&self, rep: &mut Report) -> Vec<(String, CaseResult)> {
        let mut out = vec![];
        match self.aspect {
            QAspect::History => {
                let p = parse_program("item(1). item(2). ?- item($X).").unwrap();
                out.push(("after-timeout".into(), self.run_history(&p, &[Step::CheapTimeout], 2, false, 0, rep)));
                out.push(("after-timeout-next-solution".into(), self.run_history(&p, &[Step::SolveAll { other: false }, Step::CheapTimeout], 0, false, 0, rep)));
                out.push(("after-partial".into(), self.run_history(&p, &[Step::Partial { other: false, k: 1 }, Step::Solve { other: false, k: 5 }], 1, false, 0, rep)));
                // a query without arguments, built from text in its three spellings, right after a timed-out query
                let p0 = parse_program("item(1). item(2). go :- item($X), $X > 1. ?- go.").unwrap();
                for st in 1..4 { out.push((format!("zero-arity-parsed-after-timeout-{}", st), self.run_history(&p0, &[Step::CheapTimeout], st % 3, false, st, rep))); }
                // every way a solve / solve_all call can end, then a slowly consumed query (1.1 s pause)
                let p3 = parse_program("item(1). item(2). item(3). two($X, $Y) :- item($X), item($Y). ?- two($X, $Y).").unwrap();
                out.push(("paused-after-solve-to-no-more".into(), self.run_history(&p3, &[Step::Solve { other: false, k: 12 }], 0, true, 0, rep)));
                out.push(("paused-after-solve-partial-and-solve-all".into(), self.run_history(&p3, &[Step::Solve { other: true, k: 2 }, Step::SolveAll { other: false }, Step::Unknown], 0, true, 0, rep)));
                // a query that a cut closed, asked again with solve (which then has nothing to search), then the slow consumer
                let p4 = parse_program("item(1). item(2). first($X) :- item($X), !. item(3). two($X, $Y) :- item($X), item($Y). ?- two($X, $Y).").unwrap();
                out.push(("paused-after-solve-on-a-query-closed-by-cut".into(), self.run_history(&p4, &[Step::Solve { other: true, k: 4 }], 0, true, 0, rep)));
                out.push(("paused-after-timeout-and-reasks".into(), self.run_history(&p3, &[Step::CheapTimeout, Step::Exhaust { other: false, reasks: 2 }, Step::Solve { other: true, k: 5 }], 0, true, 0, rep)));
            }
            QAspect::Timeout => {
                // always: queries on both sides of the limit (sized by calibration), and one stray-timer round
                let t8 = calibrate();
                for (i, (target, variant, use_solve)) in [(2.2, 0u32, false), (1.8, 2, true), (0.3, 1, false), (2.0, 3, false), (1.7, 4, false), (1.8, 5, true)].iter().enumerate() {
                    let n = (8.0 * (target / t8).powf(0.2)).round().max(2.0).min(60.0) as u32;
                    out.push((format!("slow-{}", i), self.slow(n, 5, *variant, *use_solve, rep)));
                }
                out.push(("stray-timer".into(), self.stray_timer(4000, 2, rep)));
                out.push(("stray-timer-no-answer".into(), self.stray_timer(600, 4, rep)));
                out.push(("stray-timer-closed-by-cut".into(), self.stray_timer(400, 6, rep)));
                out.push(("stray-timer-closed-by-timeout".into(), self.stray_timer(400, 7, rep)));
            }
        }
        out
    }

    fn rule(&self) -> String {
        match self.aspect {
            QAspect::History => "a generated knowledge base (all features) and a history of 1-5 earlier queries on it - the same query or another predicate - each run in a generated mode: next_solution k times then abandoned, to exhaustion, exhaustion plus re-asks, solve k times, solve_all, a query that ran out of time (start_query_timer(1) fires, then cancel_timer: the state solve() leaves behind after a timeout), an unknown predicate; then the query under test, built with make_query, run through next_solution / solve / solve_all. Oracle (metamorphic + reference): answers (exact strings) and all output equal those of the same query run as the first thing in the case, which in turn has the reference solver's number of answers. Non-trivial = history contains an abandoned, partially solved or timed-out query and the final query has >= 1 answer; distinct by case text.".into(),
            QAspect::Timeout => "fast class: generated programs; solve_all must equal the next_solution enumeration and solve must give the same strings one by one followed by `No more.`; a timeout message within 0.5 s is a violation. Slow class: q($X) with early answers, then n^5 resolution steps (burn loop, not(burn), or answers produced inside the loop), then late answers, n sized by calibration so the search takes 0.15-2.5 s under the real timer thread; solve_all / solve must report a prefix of the real answers, complete unless followed by the timeout message, and a timeout message only after >= 0.95 s. Stray-timer class: thousands of microsecond queries, then 1.3 s later the stop flag must still be clear and a new query must find all answers. Non-trivial = slow case in which the timer fired, fast case with >= 2 answers, or a stray-timer round; distinct by case text.".into(),
        }
    }

    fn assumptions(&self) -> Vec<String> {
        vec!["wall clock never decides a violation except through the two implications the statement itself makes (timeout message => >= 0.95 s elapsed; elapsed < 0.5 s => no timeout message); runs on an overloaded machine are counted as inconclusive discards".into(),
             "the interleaving of the timer thread with the search is sampled by real time, not controlled".into()]
    }
}
