//! C01–C05, C11: differential / metamorphic checks of the solver against the reference.

use crate::ast::*;
use crate::ast_parse::parse_program;
use crate::choice::*;
use crate::driver::*;
use crate::engine::*;
use crate::gen::*;
use crate::refsolve::*;
use crate::report::*;
use crate::rt::variant;
use serde_json::json;

#[derive(Clone, Copy, PartialEq, Debug)]
pub enum Aspect { Answers, Cut, Not, Output, Exhausted, Renaming }

pub struct SolverProp {
    pub id: &'static str,
    pub aspect: Aspect,
}

fn features(a: Aspect) -> Features {
    match a {
        Aspect::Answers => Features { cut: false, not: false, output: false, anon: true, alias_heavy: false },
        Aspect::Cut => Features { cut: true, not: false, output: false, anon: true, alias_heavy: false },
        Aspect::Not => Features { cut: false, not: true, output: false, anon: true, alias_heavy: false },
        Aspect::Output => Features { cut: true, not: true, output: true, anon: true, alias_heavy: false },
        Aspect::Exhausted => Features { cut: true, not: true, output: true, anon: true, alias_heavy: false },
        Aspect::Renaming => Features { cut: true, not: true, output: true, anon: true, alias_heavy: false },
    }
}

pub fn tick_budget(steps: u64) -> u64 { 400 * steps + 200_000 }

fn fail(kind: &str, sig: String, message: String, p: &Program) -> CaseResult {
    CaseResult::Fail(Failure { kind: kind.to_string(), signature: sig, message, case: format!("{}", p) })
}

fn fmt_answers(a: &[Vec<Term>]) -> String {
    a.iter().map(|x| format!("({})", x.iter().map(|t| t.to_string()).collect::<Vec<_>>().join(", "))).collect::<Vec<_>>().join(" ")
}

pub struct Compared {
    pub reference: RefResult,
    pub run: EngineRun,
}

/// Reference first (defines the claim's domain), then the engine, then the comparison of
/// answers (count, order, each a variant). Returns Err(CaseResult) to stop the case.
pub fn compare_answers(id: &str, p: &Program, reasks: usize) -> Result<Compared, CaseResult> {
    compare_answers_src(id, p, None, reasks)
}

/// `texts`: when given, the engine's knowledge base is parsed from these rule texts (which
/// must be renderings of `p.clauses`); the reference still runs on `p`.
pub fn compare_answers_src(id: &str, p: &Program, texts: Option<&[String]>, reasks: usize) -> Result<Compared, CaseResult> {
    let reference = solve_program(p, Limits::default());
    match &reference.status {
        Status::Finished => {}
        Status::OverBudget(w) => return Err(CaseResult::Discard(format!("reference over budget ({})", w))),
        Status::OutOfDomain(w) => return Err(CaseResult::Discard(format!("out of domain: {}", w))),
        Status::Occurs => return Err(CaseResult::Discard("needs occurs check".into())),
    }
    let expected: Vec<Vec<Term>> = reference.answers().into_iter().cloned().collect();
    let text_note = texts.map(|t| format!("\nsource text given to parse_rule:\n{}", t.join("\n"))).unwrap_or_default();
    let run = match run_program_src(p, texts, expected.len() + 5, reasks, tick_budget(reference.stats.steps)) {
        Ok(Ok(r)) => r,
        Ok(Err(msg)) => return Err(fail("parser-rejected", format!("{}:parser-rejected", id), format!("{}{}", msg, text_note), p)),
        Err(f) => {
            let sig = format!("{}:engine:{}", id, f.signature());
            return Err(fail("engine-failure", sig, format!("engine failed ({:?}); reference answers: {}{}", f, fmt_answers(&expected), text_note), p));
        }
    };
    let got: Vec<Vec<Term>> = run.answers.iter().map(|a| a.args.clone()).collect();
    if got.len() != expected.len() || !got.iter().zip(expected.iter()).all(|(g, e)| variant(g, e)) {
        let kind = if got.len() > expected.len() { "extra-answers" } else if got.len() < expected.len() { "missing-answers" } else { "wrong-answer" };
        return Err(fail("answers-differ", format!("{}:answers-differ:{}", id, kind),
            format!("reference: {}\nengine:    {}{}{}", fmt_answers(&expected), fmt_answers(&got), if run.truncated { " ..." } else { "" }, text_note), p));
    }
    for a in &run.answers {
        if !a.problems.is_empty() {
            return Err(fail("malformed-list", format!("{}:malformed-list-in-answer", id), format!("answer {:?}: {:?}", a.display, a.problems), p));
        }
    }
    Ok(Compared { reference, run })
}

fn program_classes(p: &Program, st: &RefStats, rep: &mut Report) {
    if st.answers >= 2 { rep.class("answers>=2"); }
    if st.answers == 0 { rep.class("answers=0"); }
    if st.multi_success > 0 { rep.class("real-backtrack"); }
    if st.rule_used > 0 { rep.class("rule-clause-used"); }
    if st.max_depth >= 3 { rep.class("call-depth>=3"); }
    if st.list_head_match > 0 { rep.class("list-pattern-in-head-matched"); }
    if st.builtin_calls > 0 { rep.class("list/functor-builtin-executed"); }
    let mut ts = vec![];
    for c in &p.clauses { ts.extend(c.args.iter().cloned()); if let Some(b) = &c.body { b.terms(&mut ts); } }
    ts.extend(p.qargs.iter().cloned());
    if ts.iter().any(|t| t.has_empty_list()) { rep.class("empty-list-literal"); }
    if p.clauses.iter().any(|c| { let mut v = vec![]; let mut n = 0; for a in &c.args { let mut w = vec![]; a.vars(&mut w); n += w.len(); a.vars(&mut v); } n > v.len() }) { rep.class("aliasing-head"); }
    if p.clauses.iter().any(|c| c.body.as_ref().map_or(false, |b| b.any(&|g| matches!(g, Goal::And(gs) if gs.iter().any(|x| matches!(x, Goal::Or(_))))))) { rep.class("or-nested-in-and"); }
}

impl SolverProp {
    fn check_program(&self, p: &Program, family: &str, rep: &mut Report) -> CaseResult {
        if rep.decode_only { return CaseResult::Pass; }
        let id = self.id;
        let reasks = if self.aspect == Aspect::Exhausted { 3 } else { 1 };
        let cmp = match compare_answers(id, p, reasks) {
            Ok(c) => c,
            Err(CaseResult::Fail(f)) => {
                // attribute: a property only reports failures of its own aspect when the
                // program uses that aspect's feature; everything else belongs to C01's claim
                return CaseResult::Fail(f);
            }
            Err(other) => return other,
        };
        let st = &cmp.reference.stats;
        rep.class(&format!("family:{}", family));
        program_classes(p, st, rep);
        let fp = fnv(&format!("{}", p));
        let expected: Vec<Vec<Term>> = cmp.reference.answers().into_iter().cloned().collect();

        // output segments are compared for every aspect (empty for programs without output goals)
        let (segs, tail) = cmp.reference.segments();
        let got_segs: Vec<String> = cmp.run.answers.iter().map(|a| a.out.clone()).collect();
        if segs != got_segs || tail != cmp.run.tail_out {
            return fail("output-differs", format!("{}:output-differs", id),
                format!("reference segments: {:?} tail {:?}\nengine segments:    {:?} tail {:?}", segs, tail, got_segs, cmp.run.tail_out), p);
        }
        // after the first None: no answers, no output (every aspect asks once; C05 asks three times)
        for (i, (some, out)) in cmp.run.reasks.iter().enumerate() {
            if *some || !out.is_empty() {
                return fail("exhausted-query-answers-again", format!("{}:reask", id),
                    format!("re-ask #{} after exhaustion returned {} with output {:?}", i + 1, if *some { "an answer" } else { "None" }, out), p);
            }
        }

        match self.aspect {
            Aspect::Answers => {
                // solve_all plumbing: "$Name = value" for the query's variable arguments, in order
                match run_solve_all(p, tick_budget(st.steps)) {
                    Err(f) => return fail("engine-failure", format!("{}:engine:{}", id, f.signature()), format!("solve_all failed: {:?}", f), p),
                    Ok((strings, _out)) => {
                        let timed_out = strings.last().map_or(false, |s| s.starts_with("Query timed out"));
                        if timed_out { rep.discard("solve_all hit the 1 s timer (machine overloaded): inconclusive"); }
                        else {
                            let want: Vec<String> = cmp.run.answers.iter().map(|a| {
                                let mut parts = vec![];
                                for (i, q) in p.qargs.iter().enumerate() {
                                    if let Term::Var(n) = q { parts.push(format!("{} = {}", n, a.display[i])); }
                                }
                                parts.join(", ")
                            }).collect();
                            if strings != want {
                                return fail("solve_all-differs", format!("{}:solve_all", id), format!("expected {:?}\nsolve_all {:?}", want, strings), p);
                            }
                        }
                    }
                }
                if st.multi_success > 0 && st.rule_used > 0 { rep.nontrivial(fp); rep.sample(json!({"program": format!("{}", p), "answers": fmt_answers(&expected)})); }
                let mut seen = std::collections::HashSet::new();
                if expected.iter().any(|a| !seen.insert(format!("{:?}", a))) { rep.class("duplicate-answers"); }
                if expected.iter().any(|a| a.iter().any(|t| !t.is_ground())) { rep.class("non-ground-answer"); }
            }
            Aspect::Cut => {
                rep.class_n("cut-executed", (st.cut_exec > 0) as u64);
                rep.class_n("cut-with-untried-clause", (st.cut_pending_clause > 0) as u64);
                rep.class_n("cut-pruned-disjunction-alternative", (st.cut_pruned_left > 0) as u64);
                rep.class_n("cut-then-continuation-failed", (st.cut_then_fail > 0) as u64);
                rep.class_n("cut-suppressed-later-answer-of-call", (st.cut_second_answer_suppressed > 0) as u64);
                rep.class_n("cut-in-callee", (st.cut_in_callee_with_caller_alts > 0) as u64);
                if st.cut_pending_clause > 0 || st.cut_pruned_left > 0 || st.cut_then_fail > 0 || st.cut_second_answer_suppressed > 0 {
                    rep.nontrivial(fp);
                    rep.sample(json!({"program": format!("{}", p), "answers": fmt_answers(&expected)}));
                }
            }
            Aspect::Not => {
                // the same program given as source text (rules parsed by parse_rule), when every clause has a faithful
                // text form: not(...) written in a rule must mean what the API-built operator means
                if text_presentable(p) && p.clauses.iter().any(|c| c.body.as_ref().map_or(false, |b| b.any(&|g| matches!(g, Goal::Not(_))))) {
                    let texts: Vec<String> = p.clauses.iter().map(|c| crate::render::clause(c, &crate::render::CANON)).collect();
                    let run = match run_program_src(p, Some(&texts[..]), cmp.run.answers.len() + 5, 1, tick_budget(st.steps)) {
                        Ok(Ok(r)) => r,
                        Ok(Err(msg)) => return fail("parser-rejected", format!("{}:parser-rejected", id), msg, p),
                        Err(f) => return fail("engine-failure", format!("{}:engine:{}", id, f.signature()), format!("program parsed from text failed: {:?}", f), p),
                    };
                    let b: Vec<Vec<Term>> = run.answers.iter().map(|x| x.args.clone()).collect();
                    if expected.len() != b.len() || !expected.iter().zip(b.iter()).all(|(x, y)| variant(x, y)) {
                        return fail("answers-differ", format!("{}:text-answers", id), format!("reference: {}
rules parsed from text: {}", fmt_answers(&expected), fmt_answers(&b)), p);
                    }
                    rep.class("also-solved-from-source-text");
                    if p.clauses.iter().any(|c| c.body.as_ref().map_or(false, |b| b.any(&|g| matches!(g, Goal::Not(x) if matches!(**x, Goal::Not(_)))))) { rep.class("not-directly-inside-not-in-source-text"); }
                }
                rep.class_n("not-succeeded", (st.not_succeeded > 0) as u64);
                rep.class_n("not-failed", (st.not_failed > 0) as u64);
                if st.not_succeeded > 0 && st.not_failed > 0 {
                    rep.nontrivial(fp);
                    rep.sample(json!({"program": format!("{}", p), "answers": fmt_answers(&expected)}));
                }
            }
            Aspect::Output => {
                let static_outs = p.clauses.iter().filter_map(|c| c.body.as_ref()).map(count_output_goals).sum::<u64>();
                rep.class_n("output-executed", (st.outs > 0) as u64);
                if st.outs > static_outs.max(1) || (st.outs > 0 && !tail.is_empty()) {
                    rep.class("output-repeated-by-backtracking-or-in-abandoned-branch");
                    rep.nontrivial(fp);
                    rep.sample(json!({"program": format!("{}", p), "segments": segs, "tail": tail}));
                }
            }
            Aspect::Exhausted => {
                // the same through the other entry point: solve() until `No more.`, then three more solve() calls on the
                // same node - each must say `No more.` again and the number of answers must be the query's
                // (one case in six: every solve() call starts and cancels a timer thread, which costs more than the search)
                if !cmp.run.truncated && fp % 6 == 0 {
                    let n_expected = cmp.run.answers.len();
                    let r = guarded(tick_budget(st.steps) * 3, || -> Vec<String> {
                        suiron::start_query();
                        let kb = crate::bridge::build_kb(&p.clauses);
                        let sn = suiron::make_base_node(std::rc::Rc::new(query_goal(p)), &kb);
                        let mut v = vec![];
                        loop { let r = suiron::solve(std::rc::Rc::clone(&sn)); let done = r == "No more."; v.push(r); if done || v.len() > n_expected + 2 { break; } }
                        for _ in 0..3 { v.push(suiron::solve(std::rc::Rc::clone(&sn))); }
                        v
                    });
                    if crate::capture::active() { let _ = crate::capture::take(); }
                    match r {
                        Ok(v) => {
                            if v.iter().any(|x| x.starts_with("Query timed out")) { return CaseResult::Discard("solve() hit the real 1 s timer (machine overloaded): inconclusive".into()); }
                            let answers = v.iter().take_while(|x| *x != "No more.").count();
                            let rest_ok = v[answers..].iter().all(|x| x == "No more.") && v.len() == answers + 4;
                            if answers != n_expected || !rest_ok {
                                return fail("exhausted-query-answers-again", format!("{}:reask-solve", id),
                                    format!("{} answers by next_solution; successive solve() calls on one node returned {:?}", n_expected, v), p);
                            }
                            rep.class("also-asked-through-solve");
                        }
                        Err(e) => return fail("engine-failure", format!("{}:engine-failure", id), format!("during solve() calls: {:?}", e), p),
                    }
                }
                let interesting = p.clauses.iter().any(|c| c.body.as_ref().map_or(false, |b| b.any(&|g| matches!(g, Goal::Not(_) | Goal::Or(_)))));
                if st.answers >= 1 && interesting { rep.nontrivial(fp); rep.sample(json!({"program": format!("{}", p), "answers": st.answers, "reasks": 3})); }
                if st.answers == 0 && interesting { rep.class("exhausted-at-once"); }
            }
            Aspect::Renaming => {
                return self.check_renamings(p, &cmp, rep);
            }
        }
        CaseResult::Pass
    }

    /// C11: solve the program under alpha-renamings of its clauses; answers and output must not change.
    fn check_renamings(&self, p: &Program, base: &Compared, rep: &mut Report) -> CaseResult {
        let mut qvars = vec![];
        for a in &p.qargs { a.vars(&mut qvars); }
        let pools: Vec<Vec<String>> = vec![
            // reuse the query's own variable names inside every rule
            qvars.iter().cloned().chain(["$Q1", "$Q2", "$Q3", "$X", "$A", "$B", "$C"].iter().map(|s| s.to_string())).collect(),
            // every clause gets the same names
            (0..12).map(|i| format!("$V{}", i)).collect(),
            // long / non-ASCII names
            (0..12).map(|i| format!("$Änderung_with_a_long_name_{}", i)).collect(),
            // reversed usual names
            ["$W", "$Z", "$Y", "$X", "$T", "$S"].iter().map(|s| s.to_string()).collect(),
        ];
        let mut used_query_name = false;
        for (k, pool) in pools.iter().enumerate() {
            let mut q = p.clone();
            for c in q.clauses.iter_mut() {
                let vars = c.vars();
                let mut names: Vec<String> = vec![];
                for (i, _) in vars.iter().enumerate() {
                    let mut n = if i < pool.len() { pool[(i + k) % pool.len()].clone() } else { format!("$Extra{}", i) };
                    while names.contains(&n) { n.push('x'); }
                    names.push(n);
                }
                if names.iter().any(|n| qvars.contains(n)) { used_query_name = true; }
                let mut f = |n: &str| -> Term { Term::Var(names[vars.iter().position(|v| v == n).unwrap()].clone()) };
                c.args = c.args.iter().map(|t| t.map_vars(&mut f)).collect();
                c.body = c.body.as_ref().map(|b| b.map_vars(&mut f));
            }
            // the renamed program is solved twice: built through the API, and (when every clause
            // has a source-text form) parsed from its text, where variable *names* are all the
            // parser has to go by
            let texts: Option<Vec<String>> = if text_presentable(&q) { Some(q.clauses.iter().map(|c| crate::render::clause(c, &crate::render::CANON)).collect()) } else { None };
            let presentations: Vec<Option<&[String]>> = match &texts { Some(t) => vec![None, Some(&t[..])], None => vec![None] };
            if texts.is_some() { rep.class("also-solved-from-source-text"); }
          for pres in presentations {
            let run = match run_program_src(&q, pres, base.run.answers.len() + 5, 1, tick_budget(base.reference.stats.steps)) {
                Ok(Ok(r)) => r,
                Ok(Err(msg)) => return fail("parser-rejected", format!("{}:parser-rejected", self.id), format!("{}\nrenamed:\n{}", msg, q), p),
                Err(f) => return fail("engine-failure", format!("{}:engine:{}", self.id, f.signature()), format!("renamed program failed: {:?}\nrenamed{}:\n{}", f, if pres.is_some() { " (parsed from text)" } else { "" }, q), p),
            };
            let a: Vec<Vec<Term>> = base.run.answers.iter().map(|x| x.args.clone()).collect();
            let b: Vec<Vec<Term>> = run.answers.iter().map(|x| x.args.clone()).collect();
            if a.len() != b.len() || !a.iter().zip(b.iter()).all(|(x, y)| variant(x, y)) {
                return fail("renaming-changes-answers", format!("{}:renaming-answers", self.id),
                    format!("original: {}\nrenamed:  {}\nrenamed program:\n{}", fmt_answers(&a), fmt_answers(&b), q), p);
            }
            let oa: Vec<&String> = base.run.answers.iter().map(|x| &x.out).collect();
            let ob: Vec<&String> = run.answers.iter().map(|x| &x.out).collect();
            if oa != ob || base.run.tail_out != run.tail_out {
                return fail("renaming-changes-output", format!("{}:renaming-output", self.id),
                    format!("original: {:?} / {:?}\nrenamed:  {:?} / {:?}\nrenamed program:\n{}", oa, base.run.tail_out, ob, run.tail_out, q), p);
            }
          }
        }
        let st = &base.reference.stats;
        let nonground = base.run.answers.iter().any(|a| a.args.iter().any(|t| !t.is_ground()));
        if used_query_name { rep.class("clause-variable-renamed-to-query-name"); }
        if used_query_name && (nonground || st.answers >= 2) {
            rep.nontrivial(fnv(&format!("{}", p)));
            rep.sample(json!({"program": format!("{}", p), "renamings": pools.len()}));
        }
        CaseResult::Pass
    }
}

/// Can every clause be written as source text that means exactly this clause?
pub fn text_presentable(p: &Program) -> bool {
    fn atom_ok(a: &str) -> bool {
        !a.is_empty() && a.trim() == a && !a.chars().all(|c| c.is_ascii_digit() || c == '.' || c == '-' || c == '+')
            && !a.contains(['(', ')', ',', '"', '[', ']', '|', '$', '\\']) && !a.contains(" = ") && !a.contains(" < ") && !a.contains(" > ")
            && !a.contains("= ") && !a.contains("< ") && !a.contains("> ") && !a.contains(" + ") && !a.contains(" - ") && !a.contains(" * ") && !a.contains(" / ")
            && !["fail", "nl", "!"].contains(&a)
    }
    fn term_ok(t: &Term) -> bool {
        match t {
            Term::Atom(a) => atom_ok(a),
            Term::Float(f) => f.is_finite() && f.abs() < 1e15 && (f.abs() >= 1e-4 || *f == 0.0),
            Term::Cmp(f, a) => atom_ok(f) && !["not", "time", "add", "subtract", "multiply", "divide", "join"].contains(&f.as_str()) && a.iter().all(term_ok),
            Term::Func(_, a) => !a.is_empty() && a.iter().all(term_ok),
            Term::List(es, tl) => es.iter().all(term_ok) && tl.as_ref().map_or(true, |t| matches!(**t, Term::Var(_) | Term::Anon)),
            _ => true,
        }
    }
    fn operand_ok(t: &Term) -> bool { match t { Term::Atom(a) => !a.contains([';', ':', '.', '<', '>', '=', '%', '#', '!', '/', '*', '+']), _ => true } }
    fn leaf(g: &Goal) -> bool { !matches!(g, Goal::And(_) | Goal::Or(_) | Goal::Not(_) | Goal::Time(_)) }
    fn goal_ok(g: &Goal) -> bool {
        match g {
            Goal::And(gs) | Goal::Or(gs) => gs.len() >= 2 && gs.iter().all(goal_ok),
            Goal::Not(x) => (matches!(**x, Goal::Call(..)) || matches!(**x, Goal::Not(_))) && goal_ok(x),
            Goal::Time(x) => matches!(**x, Goal::Call(..)) && goal_ok(x),
            Goal::Call(n, a) => atom_ok(n) && !crate::render::RESERVED.contains(&n.as_str()) && a.iter().all(term_ok),
            Goal::BuiltIn(_, a) => !a.is_empty() && a.iter().all(term_ok),
            // an operand of an infix stands outside any parentheses, where ; : . < > = % # also have a meaning
            Goal::Unify(a, b) | Goal::Compare(_, a, b) => term_ok(a) && term_ok(b) && operand_ok(a) && operand_ok(b),
            g => leaf(g),
        }
    }
    p.clauses.iter().all(|c| atom_ok(&c.name) && !crate::render::RESERVED.contains(&c.name.as_str()) && c.args.iter().all(term_ok) && c.body.as_ref().map_or(true, goal_ok))
        // the parsers reject complex terms and rules longer than 1000 bytes (documented: "String is too long")
        && p.clauses.iter().all(|c| crate::render::clause(c, &crate::render::CANON).len() <= 800)
}

fn count_output_goals(g: &Goal) -> u64 {
    match g {
        Goal::And(gs) | Goal::Or(gs) => gs.iter().map(count_output_goals).sum(),
        Goal::Not(x) | Goal::Time(x) => count_output_goals(x),
        Goal::Nl => 1,
        Goal::BuiltIn(n, _) if n == "print" || n == "print_list" => 1,
        _ => 0,
    }
}

// ------------------------------------------------------------------ bounded-exhaustive families

fn tiny_goal(s: &mut dyn Src) -> Goal {
    match s.draw(7) {
        0 => Goal::Call("q".into(), vec![Term::var("$X")]),
        1 => Goal::Call("q".into(), vec![Term::atom("a")]),
        2 => Goal::Unify(Term::var("$X"), Term::atom("a")),
        3 => Goal::Unify(Term::var("$X"), Term::atom("b")),
        4 => Goal::Unify(Term::var("$X"), Term::var("$Y")),
        5 => Goal::Or(vec![Goal::Call("q".into(), vec![Term::var("$X")]), Goal::Unify(Term::var("$X"), Term::atom("b"))]),
        _ => Goal::Fail,
    }
}

/// C01: p/1 (1–2 clauses, bodies of 0–2 goals), q/1 (0–3 facts over {a,b}), queries p($X), p(a).
fn tiny_program(s: &mut dyn Src) -> Program {
    let mut clauses = vec![];
    let nq = s.draw(4);
    for _ in 0..nq { clauses.push(Clause { name: "q".into(), args: vec![Term::atom(if s.draw(2) == 0 { "a" } else { "b" })], body: None }); }
    let np = 1 + s.draw(2);
    for _ in 0..np {
        let head = if s.draw(2) == 0 { Term::var("$X") } else { Term::atom("a") };
        let n = s.draw(3);
        let body = match n {
            0 => None,
            1 => Some(tiny_goal(s)),
            _ => Some(Goal::And(vec![tiny_goal(s), tiny_goal(s)])),
        };
        clauses.push(Clause { name: "p".into(), args: vec![head], body });
    }
    let qargs = vec![if s.draw(2) == 0 { Term::var("$X") } else { Term::atom("a") }];
    Program { clauses, qname: "p".into(), qargs }
}

fn cut_item(s: &mut dyn Src) -> Goal {
    let x = || Term::var("$X");
    match s.draw(7) {
        0 => Goal::Call("gen".into(), vec![x()]),
        1 => Goal::Cut,
        2 => Goal::Call("test".into(), vec![x()]),
        3 => Goal::Fail,
        4 => Goal::Or(vec![Goal::Unify(x(), Term::atom("a")), Goal::Unify(x(), Term::atom("b"))]),
        5 => Goal::Or(vec![Goal::And(vec![Goal::Call("gen".into(), vec![x()]), Goal::Cut]), Goal::Call("gen".into(), vec![x()])]),
        _ => Goal::Call("callee".into(), vec![x()]),
    }
}

/// C02: every cut position in bodies of 1–3 items (4 in the thorough tier's second family).
fn cut_program(s: &mut dyn Src, max_items: u32) -> Program {
    let text = "gen(a). gen(b). gen(c). test(b). callee($X) :- gen($X), !. ?- top($X).";
    let mut p = parse_program(text).unwrap();
    let n = 1 + s.draw(max_items);
    let mut items = vec![];
    for _ in 0..n { items.push(cut_item(s)); }
    let body = if items.len() == 1 { items.pop().unwrap() } else { Goal::And(items) };
    p.clauses.push(Clause { name: "p".into(), args: vec![Term::var("$X")], body: Some(body) });
    match s.draw(3) {
        0 => {}
        1 => p.clauses.push(Clause { name: "p".into(), args: vec![Term::atom("z")], body: None }),
        _ => p.clauses.push(Clause { name: "p".into(), args: vec![Term::var("$X")], body: Some(Goal::Call("gen".into(), vec![Term::var("$X")])) }),
    }
    match s.draw(3) {
        0 => { p.qname = "p".into(); }
        1 => {
            p.clauses.push(Clause { name: "top".into(), args: vec![Term::var("$X")], body: Some(Goal::Call("p".into(), vec![Term::var("$X")])) });
            p.clauses.push(Clause { name: "top".into(), args: vec![Term::atom("w")], body: None });
        }
        _ => {
            p.clauses.push(Clause { name: "top".into(), args: vec![Term::var("$X")],
                body: Some(Goal::And(vec![Goal::Call("test".into(), vec![Term::var("$Y")]), Goal::Call("p".into(), vec![Term::var("$X")]), Goal::Call("gen".into(), vec![Term::var("$Y")])])) });
        }
    }
    p
}

fn not_inner(s: &mut dyn Src) -> Goal {
    let x = || Term::var("$X");
    match s.draw(6) {
        0 => Goal::Call("gen".into(), vec![x()]),
        1 => Goal::Call("test".into(), vec![x()]),
        2 => Goal::Unify(x(), Term::atom("c")),
        3 => Goal::And(vec![Goal::Call("gen".into(), vec![x()]), Goal::Call("test".into(), vec![x()])]),
        4 => Goal::Or(vec![Goal::Call("test".into(), vec![x()]), Goal::Unify(x(), Term::atom("a"))]),
        _ => Goal::Fail,
    }
}

/// C03: not(G) at each position of a 1–3 item body, G from a small set, with $X bound / unbound.
fn not_program(s: &mut dyn Src) -> Program {
    let text = "gen(a). gen(b). gen(c). test(b). ?- p($X).";
    let mut p = parse_program(text).unwrap();
    let n = 1 + s.draw(3);
    let mut items = vec![];
    for _ in 0..n {
        items.push(match s.draw(5) {
            0 => Goal::Call("gen".into(), vec![Term::var("$X")]),
            1 => Goal::Not(Box::new(not_inner(s))),
            2 => Goal::Not(Box::new(Goal::Not(Box::new(not_inner(s))))),
            3 => Goal::Unify(Term::var("$X"), Term::atom("b")),
            _ => Goal::Call("test".into(), vec![Term::var("$X")]),
        });
    }
    let body = if items.len() == 1 { items.pop().unwrap() } else { Goal::And(items) };
    p.clauses.push(Clause { name: "p".into(), args: vec![Term::var("$X")], body: Some(body) });
    if s.draw(2) == 1 { p.clauses.push(Clause { name: "p".into(), args: vec![Term::atom("z")], body: None }); }
    p
}

impl Property for SolverProp {
    fn id(&self) -> &'static str { self.id }
    fn max_len(&self) -> usize { 256 }
    fn budget(&self) -> (u64, u64) {
        // quick tiers sized to 10-20 s of wall time with 16 workers (C01 and C03 also enumerate a family). C11 runs every
        // program five times and the engine leaks its search trees (Rc cycles): 10 000 cases (thorough) cost a worker about 1.4 GB
        match self.aspect { Aspect::Answers | Aspect::Not => (2500, 60_000), Aspect::Renaming => (4000, 10_000), _ => (10_000, 60_000) }
    }

    fn check(&self, src: &mut dyn Src, rep: &mut Report) -> CaseResult {
        let (p, family) = gen_any_program(src, features(self.aspect));
        self.check_program(&p, family, rep)
    }

    fn families(&self) -> Vec<Family> {
        let me = SolverProp { id: self.id, aspect: self.aspect };
        match self.aspect {
            Aspect::Answers => vec![Family {
                name: "tiny-programs", describe: "p/1 with 1-2 clauses (head $X or a; body 0-2 goals from 7 alternatives), q/1 with 0-3 facts over {a,b}, query p($X) or p(a)",
                quick_cap: Some(30_000),
                check: Box::new(move |s, rep| { let p = tiny_program(s); me.check_program(&p, "tiny-exhaustive", rep) }),
            }],
            Aspect::Cut => {
                let me2 = SolverProp { id: self.id, aspect: self.aspect };
                vec![
                    Family { name: "cut-positions-3", describe: "p($X) body of 1-3 items from {gen,!,test,fail,(X=a;X=b),(gen,!;gen),callee}, optional second clause, three callers",
                        quick_cap: None, check: Box::new(move |s, rep| { let p = cut_program(s, 3); me.check_program(&p, "cut-exhaustive", rep) }) },
                    Family { name: "cut-positions-4", describe: "the same with bodies of up to 4 items",
                        quick_cap: Some(0), check: Box::new(move |s, rep| { let p = cut_program(s, 4); me2.check_program(&p, "cut-exhaustive", rep) }) },
                ]
            }
            Aspect::Not => vec![Family {
                name: "not-positions", describe: "p($X) body of 1-3 items from {gen, not(G), not(not(G)), X=b, test}, G from 6 shapes, optional second clause",
                quick_cap: None, check: Box::new(move |s, rep| { let p = not_program(s); me.check_program(&p, "not-exhaustive", rep) }),
            }],
            _ => vec![],
        }
    }

    fn fixed(&self, rep: &mut Report) -> Vec<(String, CaseResult)> {
        let mut out = vec![];
        for (name, text) in FIXED {
            let p = parse_program(text).unwrap_or_else(|e| panic!("harness: fixed case {} does not parse: {}", name, e));
            let uses_cut = p.clauses.iter().any(|c| c.body.as_ref().map_or(false, |b| b.any(&|g| matches!(g, Goal::Cut))));
            let uses_not = p.clauses.iter().any(|c| c.body.as_ref().map_or(false, |b| b.any(&|g| matches!(g, Goal::Not(_)))));
            let uses_out = p.clauses.iter().any(|c| c.body.as_ref().map_or(false, |b| count_output_goals(b) > 0));
            let f = features(self.aspect);
            if (uses_cut && !f.cut) || (uses_not && !f.not) || (uses_out && !f.output) { continue; }
            out.push((name.to_string(), self.check_program(&p, "fixed", rep)));
        }
        out
    }

    fn rule(&self) -> String {
        let common = "Programs are decoded from a proptest-generated choice sequence: typed base facts (num/1, item/1, lst/1, pair/2) plus 1-4 generated predicates (stratified or freely recursive) or a library of recursive templates (member, app, len, rev, sum, down, upto, path over a generated DAG, last, sel) driven by a generated main/3 rule; bodies are and/or trees of calls, =, comparisons, arithmetic, append/count/include/exclude/functor";
        match self.aspect {
            Aspect::Answers => format!("{}. Oracle: reference DFS solver; answers compared in order as variants, then solve_all strings. Non-trivial = reference run had a goal succeed more than once (real backtrack) and used a rule clause; distinct by program text.", common),
            Aspect::Cut => format!("{} and `!` at any position. Oracle: reference solver with Suiron's documented cut. Non-trivial = a cut executed while its call had an untried clause, or pruned a disjunction alternative, or its continuation then failed, or it suppressed a later answer of the call; distinct by program text.", common),
            Aspect::Not => format!("{} and not(G), one in five doubled to not(not(G)); text-presentable programs are also solved from their source text (parse_rule). Oracle: reference solver. Non-trivial = in one run not(...) both succeeded and failed; distinct by program text.", common),
            Aspect::Output => format!("{} plus print/print_list/nl (print_list also over lists with two to four chained bound tails), cut and not. Oracle: captured stdout per answer equals the reference's output events per answer. Non-trivial = an output goal executed more often than it occurs in the text (backtracking) or output was written in a branch abandoned after the last answer; distinct by program text.", common),
            Aspect::Exhausted => format!("{} with all features; after the first None the query is asked 3 more times; one case in six also through successive solve() calls on one node. Oracle: every re-ask returns None and writes nothing; solve() gives the query's number of answers, then `No more.` four times. Non-trivial = query had >=1 answer and the program contains not or a disjunction; distinct by program text.", common),
            Aspect::Renaming => format!("{} with all features; each program is re-solved under 4 alpha-renamings of every clause (query's names reused, same names everywhere, long non-ASCII names, rotated names). Oracle: identical answers (variants) and identical output. Non-trivial = a clause variable was renamed to a query variable name and the query has a non-ground answer or >=2 answers; distinct by program text.", common),
        }
    }

    fn assumptions(&self) -> Vec<String> {
        vec![
            "programs are built through the public API (make_rule/make_fact/add_rules/make_query), not through the text parser".into(),
            "reference search must finish within 5000 steps, depth 150, 200 answers; otherwise the case is discarded".into(),
            "cases where the reference applies a built-in outside its documented domain (arithmetic on unbound/non-number, integer overflow or division by zero, open-ended lists in list built-ins, unbound print arguments) or needs the occurs check are discarded".into(),
            "no cut inside not(...); no time(...)".into(),
            "the reference solver encodes Suiron's documented cut: commits the clause, freezes everything to the left (including enclosing disjunctions) and the call yields no answer after the first one derived past the cut".into(),
        ]
    }
}

/// Hand-written regression programs (each once exposed a defect or is a documented shape).
const FIXED: &[(&str, &str)] = &[
    ("len-empty", "len([], 0). len([$H | $T], $N) :- len($T, $M), $N = add($M, 1). ?- len([], $N)."),
    ("len-3", "len([], 0). len([$H | $T], $N) :- len($T, $M), $N = add($M, 1). ?- len([a, b, c], $N)."),
    ("alias-twice", "p($X, $Y) :- $X = $Y, $Y = $X. ?- p($A, $B)."),
    ("alias-head", "eq($X, $X). p($A, $B) :- eq($A, $B), eq($B, $A), $A = 1. ?- p($Q, $R)."),
    ("anon-unify", "p($X) :- $X = $_, $X = a. ?- p($Q)."),
    ("func-right", "p($X) :- 5 = add(2, 3), $X = ok. ?- p($Q)."),
    ("cut-fail-next-clause", "qq(x). p(1) :- qq(x), !, fail. p(2). ?- p($X)."),
    ("cut-or-branch-fail", "g(1). g(2). p($X) :- (g($X), !, fail ; $X = 9). ?- p($X)."),
    ("cut-one-answer", "gen(1). gen(2). more(a). more(b). ok(b). p($X, $Y) :- gen($X), !, more($Y), ok($Y). ?- p($A, $B)."),
    ("cut-all-more", "gen(1). gen(2). more(a). more(b). p($X, $Y) :- gen($X), !, more($Y). ?- p($A, $B)."),
    ("cut-callee", "gen(1). gen(2). first($X) :- gen($X), !. p($X, $Y) :- gen($Y), first($X). ?- p($A, $B)."),
    ("not-reask", "r(2). p :- not(r(2)). ?- p."),
    ("not-backtrack", "g(1). g(2). g(3). r(2). p($X) :- g($X), not(r($X)). ?- p($X)."),
    ("not-conj", "g(1). g(2). r(2). s(2). p($X) :- g($X), not((r($X), s($X))). ?- p($X)."),
    ("print-loop", "g(1). g(2). p :- g($X), print(\"<%s>\", $X), fail. p :- nl. ?- p."),
    ("print-between", "g(1). g(2). g(3). t(2). p($X) :- g($X), print(\"<%s>\", $X), t($X). ?- p($X)."),
    ("append-bound-tail", "p($O) :- $T = [b], append([a | $T], [c], $O). ?- p($O)."),
    ("append-nested-last", "p($O) :- append(a, [[b, c]], $O). ?- p($O)."),
    ("include-nested", "p($O) :- include($_, [a, [b]], $O). ?- p($O)."),
    ("or-three", "p($X) :- ($X = 1 ; $X = 2 ; $X = 3). ?- p($X)."),
    ("or-in-and", "g(1). g(2). p($X, $Y) :- g($X), ($Y = a ; $Y = b), g($X). ?- p($X, $Y)."),
];
