//! C12–C17: built-in functions and predicates. Every case is a one-rule program whose head
//! exposes every variable of the body, solved by the engine (API-built or parsed from text)
//! and by the reference solver, whose built-ins are written from the documentation.

use crate::ast::*;
use crate::bridge::*;
use crate::choice::*;
use crate::driver::*;
use crate::engine::*;
use crate::props::solver::compare_answers_src;
use crate::refsolve::*;
use crate::render;
use crate::report::*;
use serde_json::json;

/// Usually a small size, one time in ten a large one (see DESIGN.md: sizes and boundaries).
fn sz(s: &mut dyn Src, small: u32, large: u32) -> u32 { if chance(s, 1, 10) { s.draw(large) } else { s.draw(small) } }

#[derive(Clone, Copy, PartialEq, Debug)]
pub enum BAspect { Arith, FuncSides, Compare, Lists, Append, Misc }

pub struct BuiltinProp { pub id: &'static str, pub aspect: BAspect }

/// Builds the body of a scenario rule; hands out fresh variables and binds them.
pub struct Scn {
    pub goals: Vec<Goal>,
    pub vars: Vec<String>,
    /// some list went through the recursive `copy/2` (clauses are added by `program`)
    pub uses_copy: bool,
}

impl Scn {
    pub fn new() -> Self { Scn { goals: vec![], vars: vec![], uses_copy: false } }
    pub fn fresh(&mut self) -> String {
        let n = format!("$V{}", self.vars.len() + 1);
        self.vars.push(n.clone());
        n
    }
    /// A variable bound to `value` through 0..=links further variables.
    pub fn bind(&mut self, s: &mut dyn Src, value: Term, links: u32) -> Term {
        let v = self.fresh();
        if chance(s, 1, 4) { self.goals.push(Goal::Unify(value, Term::Var(v.clone()))); }
        else { self.goals.push(Goal::Unify(Term::Var(v.clone()), value)); }
        let mut cur = v;
        for _ in 0..links {
            let w = self.fresh();
            if chance(s, 1, 2) { self.goals.push(Goal::Unify(Term::Var(w.clone()), Term::Var(cur.clone()))); }
            else { self.goals.push(Goal::Unify(Term::Var(cur.clone()), Term::Var(w.clone()))); }
            cur = w;
        }
        Term::Var(cur)
    }
    /// The list as a recursive rule builds it: `copy(list, $V)` leaves $V bound to a chain of one-element lists whose
    /// tail variables all carry the same *name* (`$T2`) with different ids - what user programs that construct lists
    /// element by element hand to the list built-ins.
    pub fn through_copy(&mut self, list: Term) -> Term {
        self.uses_copy = true;
        let v = self.fresh();
        self.goals.push(Goal::Call("copy".into(), vec![list, Term::Var(v.clone())]));
        Term::Var(v)
    }
    /// literal, or a variable bound to it (directly or through a chain)
    pub fn present(&mut self, s: &mut dyn Src, value: Term) -> (Term, bool) {
        match weighted(s, &[3, 2, 2]) {
            0 => (value, false),
            1 => (self.bind(s, value, 0), true),
            _ => { let l = 1 + s.draw(3); (self.bind(s, value, l), true) }
        }
    }
    pub fn program(self, extra: Vec<Clause>) -> Program {
        let args: Vec<Term> = self.vars.iter().map(|v| Term::Var(v.clone())).collect();
        let qargs: Vec<Term> = (0..self.vars.len()).map(|i| Term::Var(format!("$Q{}", i + 1))).collect();
        let body = if self.goals.len() == 1 { self.goals.into_iter().next().unwrap() } else { Goal::And(self.goals) };
        let mut clauses = extra;
        if self.uses_copy {
            // copy([], []).  copy([$H | $T], [$H | $T2]) :- copy($T, $T2).
            clauses.push(Clause { name: "copy".into(), args: vec![Term::List(vec![], None), Term::List(vec![], None)], body: None });
            clauses.push(Clause { name: "copy".into(), args: vec![Term::List(vec![Term::var("$H")], Some(Box::new(Term::var("$T")))), Term::List(vec![Term::var("$H")], Some(Box::new(Term::var("$T2"))))],
                                  body: Some(Goal::Call("copy".into(), vec![Term::var("$T"), Term::var("$T2")])) });
        }
        clauses.push(Clause { name: "t".into(), args, body: Some(body) });
        Program { clauses, qname: "t".into(), qargs }
    }
}

// ------------------------------------------------------------------ value pools

const INTS: [i64; 22] = [0, 1, -1, 2, 3, -3, 7, -7, 10, -29, 100, -1000, 12345, 9007199254740992, 9007199254740993, -9007199254740993,
                         4611686018427387904, -4611686018427387904, i64::MAX, i64::MAX - 1, i64::MIN, i64::MIN + 1];
const FLOATS: [f64; 16] = [0.5, -0.5, 1.0, 2.5, -2.25, 0.1, 0.0, -0.0, 3.0, 1e16, 1e17, -1e17, 9007199254740992.0, 1e300, -1e300, 1.0e-3];
const ATOMS: [&str; 12] = ["a", "b", "ab", "a b", "Z", "apple", "Apple", "é", "zebra", "10", "a-b", "_"];

fn gen_num(s: &mut dyn Src) -> Term {
    if chance(s, 2, 5) { Term::Float(pick(s, &FLOATS)) } else { Term::Int(pick(s, &INTS)) }
}
fn small_num(s: &mut dyn Src) -> Term {
    match s.draw(4) { 0 => Term::Float(pick(s, &[0.5, 2.5, -2.25, 3.0])), _ => Term::Int(s.draw(21) as i64 - 10) }
}

fn kind(t: &Term) -> &'static str {
    match t { Term::Int(_) => "int", Term::Float(_) => "float", Term::Atom(_) => "atom", Term::Var(_) => "unbound", Term::Anon => "anon",
              Term::List(..) => "list", Term::Cmp(..) => "complex", Term::Func(..) => "function" }
}

pub fn text_safe(t: &Term) -> bool {
    // can this constant be written in source text and read back as the same constant?
    match t {
        Term::Atom(a) => !a.chars().all(|c| c.is_ascii_digit()) && !a.contains(['(', ')', ',', '"', '[', ']', '|', '$', '=', '<', '>']) && a.trim() == a && !a.is_empty(),
        Term::Float(f) => f.is_finite() && f.abs() < 1e18 && (f.abs() > 1e-4 || *f == 0.0),
        Term::Cmp(_, a) | Term::Func(_, a) => a.iter().all(text_safe),
        Term::List(es, tl) => es.iter().all(text_safe) && tl.as_ref().map_or(true, |t| text_safe(t)),
        _ => true,
    }
}

fn fail(id: &str, kind: &str, msg: String, case: String) -> CaseResult {
    CaseResult::Fail(Failure { kind: kind.to_string(), signature: format!("{}:{}", id, kind), message: msg, case })
}

thread_local! {
    /// when set, scenario programs are handed over instead of being run (used to build the Miri corpus of C24)
    static SINK: std::cell::RefCell<Option<Vec<Program>>> = std::cell::RefCell::new(None);
}

/// The scenario program(s) that `aspect`'s generator decodes from `src`, without running them.
pub fn scenario_programs(aspect: BAspect, src: &mut dyn Src) -> Vec<Program> {
    SINK.with(|k| *k.borrow_mut() = Some(vec![]));
    let prop = BuiltinProp { id: "C24", aspect };
    let mut rep = Report::new();
    rep.frozen = true;
    let _ = prop.check(src, &mut rep);
    SINK.with(|k| k.borrow_mut().take()).unwrap_or_default()
}

/// Runs the scenario program through engine (API or text) and reference.
fn run(id: &str, p: &Program, style: Option<render::Style>) -> Result<crate::props::solver::Compared, CaseResult> {
    let captured = SINK.with(|k| { let mut g = k.borrow_mut(); if let Some(v) = g.as_mut() { v.push(p.clone()); true } else { false } });
    if captured { return Err(CaseResult::Discard("captured".into())); }
    match style {
        None => compare_answers_src(id, p, None, 1),
        Some(st) => {
            let texts: Vec<String> = p.clauses.iter().map(|c| render::clause(c, &st)).collect();
            // (rules longer than the parsers' documented 1000-byte limit are given through the API instead)
            if texts.iter().any(|t| t.len() > 800) { return compare_answers_src(id, p, None, 1); }
            compare_answers_src(id, p, Some(&texts), 1)
        }
    }
}

fn program_text_safe(p: &Program) -> bool {
    let mut ts = vec![];
    for c in &p.clauses { ts.extend(c.args.iter().cloned()); if let Some(b) = &c.body { b.terms(&mut ts); } }
    ts.iter().all(text_safe)
}

impl BuiltinProp {
    // -------------------------------------------------------------- C12
    fn arith(&self, s: &mut dyn Src, rep: &mut Report) -> CaseResult {
        let op = pick(s, &["add", "subtract", "multiply", "divide"]);
        let n = 1 + sz(s, 4, 9) as usize;
        let vals: Vec<Term> = (0..n).map(|_| if chance(s, 1, 3) { small_num(s) } else { gen_num(s) }).collect();
        // 0 literal/API  1 variables/API  2 text function form  3 text infix form (binary)
        // 4 text: the operands are the arguments of a fact (nums(decoy, v1, .., vn).) and reach the function through variables
        let pres = weighted(s, &[3, 3, 2, 2, 2]);
        let mut sc = Scn::new();
        let mut via_chain = false;
        let mut extra: Vec<Clause> = vec![];
        if pres == 4 {
            let decoy = match s.draw(4) { 0 => Term::Float(2.5), 1 => Term::Int(3), 2 => Term::atom("a"), _ => Term::Float(0.5) };
            let mut fargs = vec![decoy];
            fargs.extend(vals.iter().cloned());
            extra.push(Clause { name: "nums".into(), args: fargs, body: None });
        }
        let fact_vars: Vec<Term> = if pres == 4 { vals.iter().map(|_| Term::Var(sc.fresh())).collect() } else { vec![] };
        if pres == 4 { let mut a = vec![Term::Anon]; a.extend(fact_vars.iter().cloned()); sc.goals.push(Goal::Call("nums".into(), a)); via_chain = true; }
        let mut fact_iter = fact_vars.iter();
        let args: Vec<Term> = vals.iter().map(|v| {
            if pres == 4 { fact_iter.next().unwrap().clone() } else if pres == 0 { v.clone() } else if pres == 1 { let l = s.draw(3); via_chain |= l > 0; sc.bind(s, v.clone(), l) }
            else { let (t, b) = sc.present(s, v.clone()); via_chain |= b; t }
        }).collect();
        let args = if pres == 3 { args.into_iter().take(2).collect::<Vec<_>>() } else { args };
        if pres == 3 && args.len() < 2 { return CaseResult::Discard("infix needs two operands".into()); }
        let vals = if pres == 3 { vals[..2].to_vec() } else { vals };
        let f = Term::Func(op.to_string(), args);
        // what the function is unified with
        let nums: Vec<Num> = vals.iter().map(|v| match v { Term::Int(i) => Num::I(*i), Term::Float(x) => Num::F(*x), _ => unreachable!() }).collect();
        let value = match fold_arith(op, &nums) { Some(Num::I(i)) => Term::Int(i), Some(Num::F(x)) => Term::Float(x), None => return CaseResult::Discard("integer overflow or division by zero (outside the claim)".into()) };
        let partner_kind = s.draw(6);
        let partner = match partner_kind {
            0 | 1 => Term::Var(sc.fresh()),
            2 => value.clone(),
            // the closest different number: the neighbouring double (1 ulp away) / the neighbouring integer - "unified
            // with the other operand" means equal, not approximately equal
            5 => match &value {
                Term::Int(i) => Term::Int(if chance(s, 1, 2) { i.wrapping_sub(1) } else { i.wrapping_add(1) }),
                Term::Float(x) if x.is_finite() && *x != 0.0 => Term::Float(f64::from_bits(if chance(s, 1, 2) { x.to_bits() + 1 } else { x.to_bits() - 1 })),
                Term::Float(_) => Term::Float(5e-324),
                _ => unreachable!() },
            3 => match &value { Term::Int(i) => Term::Int(i.wrapping_add(1)), Term::Float(x) => Term::Float(x + 1.5), _ => unreachable!() },
            _ => match &value { // same value, other numeric type
                Term::Int(i) => Term::Float(*i as f64),
                Term::Float(x) => if x.is_finite() && x.abs() < 9e15 && *x == x.trunc() { Term::Int(*x as i64) } else { Term::atom("none") },
                _ => unreachable!() },
        };
        if let Term::Float(x) = &value { if x.is_nan() && partner_kind >= 2 { return CaseResult::Discard("NaN result against a constant".into()); } }
        let fun_left = chance(s, 1, 3);
        let partner = if partner_kind >= 2 && pres <= 1 && chance(s, 1, 3) { let l = s.draw(2); sc.bind(s, partner, l) } else { partner };
        sc.goals.push(if fun_left { Goal::Unify(f.clone(), partner.clone()) } else { Goal::Unify(partner.clone(), f.clone()) });
        let p = sc.program(extra);
        // (text forms are written with or without a blank after the commas)
        let tight = chance(s, 1, 3);
        let style = match pres { 2 | 4 => Some(render::Style { tight_commas: tight, ..render::CANON }), 3 => Some(render::Style { infix_arith: true, tight_commas: tight, ..render::CANON }), _ => None };
        if style.is_some() && !program_text_safe(&p) { return CaseResult::Discard("value has no source-text form".into()); }
        let cmp = match run(self.id, &p, style) { Ok(c) => c, Err(r) => return r };
        // bit-exact value check on the result variable
        if partner_kind <= 1 {
            let idx = p.qargs.len() - 1;
            match cmp.run.answers.first().map(|a| &a.args[idx]) {
                Some(got) => {
                    let same = match (got, &value) { (Term::Int(a), Term::Int(b)) => a == b, (Term::Float(a), Term::Float(b)) => a.to_bits() == b.to_bits() || (a.is_nan() && b.is_nan()), _ => false };
                    if !same { return fail(self.id, "wrong-value", format!("{}({:?}) should be {:?}, engine bound the result to {:?}", op, vals, value, got), format!("{}", p)); }
                }
                None => return fail(self.id, "no-result", "no answer".into(), format!("{}", p)),
            }
        }
        rep.class(&format!("presentation:{}", ["literal-api", "variables-api", "text-function", "text-infix", "text-operands-from-a-fact"][pres]));
        rep.class(&format!("op:{}", op));
        rep.class(&format!("partner:{}", ["unbound", "unbound", "equal-constant", "different-constant", "same-value-other-type", "neighbouring-number"][partner_kind as usize]));
        let mixed = nums.iter().any(|x| matches!(x, Num::I(_))) && nums.iter().any(|x| matches!(x, Num::F(_)));
        let inexact = op == "divide" && matches!(value, Term::Int(_)) && nums.len() >= 2 && { let is: Vec<i64> = nums.iter().map(|x| if let Num::I(i) = x { *i } else { 0 }).collect(); is[1] != 0 && is[0] % is[1] != 0 };
        if mixed { rep.class("mixed-int-float"); }
        if inexact { rep.class("inexact-integer-division"); }
        if nums.len() >= 2 && (mixed || inexact || via_chain) {
            rep.nontrivial(fnv(&format!("{}", p)));
            rep.sample(json!({"program": format!("{}", p), "value": format!("{}", value), "presentation": pres}));
        }
        CaseResult::Pass
    }

    // -------------------------------------------------------------- C13
    fn func_sides(&self, s: &mut dyn Src, rep: &mut Report) -> CaseResult {
        let mut sc = Scn::new();
        // 1 case in 4: the two operands meet as corresponding arguments of two complex terms (w(k, F) = w(k, P)), the
        // way a goal's function argument meets a fact's constant; drawn first so that it is not starved by long programs
        let wrap = match s.draw(8) { 0 => 1, 1 => 2, _ => 0 };
        let gen_fun = |s: &mut dyn Src, sc: &mut Scn| -> Term {
            if chance(s, 1, 3) {
                let n = 1 + sz(s, 4, 12) as usize;
                let mut args = vec![];
                for _ in 0..n {
                    let w = match s.draw(6) { 0 => Term::atom(","), 1 => Term::atom("."), 2 => Term::Int(s.draw(10) as i64), 3 => Term::List(vec![Term::atom("x"), Term::atom("?"), Term::atom("y")], None), _ => Term::atom(pick(s, &["the", "cat", "sat", "Hello"])) };
                    let (t, _) = if matches!(w, Term::List(..)) { (w, false) } else { sc.present(s, w) };
                    args.push(t);
                }
                Term::Func("join".into(), args)
            } else {
                let op = pick(s, &["add", "subtract", "multiply", "divide"]);
                let n = 1 + s.draw(3) as usize;
                let mut args = vec![];
                for i in 0..n {
                    let mut v = small_num(s);
                    if op == "divide" && i > 0 { if let Term::Int(0) = v { v = Term::Int(2); } }
                    let (t, _) = sc.present(s, v);
                    args.push(t);
                }
                Term::Func(op.to_string(), args)
            }
        };
        // 1 case in 8: the other operand is a variable that is also an argument of the function ($X = $X * 1,
        // $X + 0 = $X, $X = $X + 1): the value may well be equal to the variable's binding
        let own_arg: Option<Term> = if chance(s, 1, 8) { let v = small_num(s); let l = s.draw(2); Some(sc.bind(s, v, l)) } else { None };
        let f = match &own_arg {
            Some(var) => {
                let (op, k) = pick(s, &[("multiply", 1i64), ("add", 0), ("subtract", 0), ("divide", 1), ("add", 1), ("multiply", 2)]);
                let mut args = vec![var.clone(), Term::Int(k)];
                if (op == "add" || op == "multiply") && chance(s, 1, 2) { args.reverse(); }
                Term::Func(op.to_string(), args)
            }
            None => gen_fun(s, &mut sc),
        };
        // evaluate F with the reference to be able to build "equal value" partners
        let fval: Option<Term> = {
            let mut probe = Scn { goals: sc.goals.clone(), vars: sc.vars.clone(), uses_copy: sc.uses_copy };
            let r = probe.fresh();
            probe.goals.push(Goal::Unify(Term::Var(r), f.clone()));
            let pp = probe.program(vec![]);
            let rr = solve_program(&pp, Limits::default());
            if rr.status != Status::Finished { return CaseResult::Discard("function outside its domain".into()); }
            rr.answers().first().map(|a| a.last().unwrap().clone())
        };
        let fval = match fval { Some(v) => v, None => return CaseResult::Discard("function has no value".into()) };
        let other_val = match &fval { Term::Int(i) => Term::Int(i + 1), Term::Float(x) => Term::Float(x + 0.5), Term::Atom(a) => Term::Atom(format!("{} x", a)), t => t.clone() };
        let pk = if own_arg.is_some() { 10 } else { s.draw(10) };
        let partner = match pk {
            10 => own_arg.clone().unwrap(),
            0 => Term::Var(sc.fresh()),
            1 => { let l = s.draw(2); sc.bind(s, fval.clone(), l) }
            2 => { let l = s.draw(2); sc.bind(s, other_val.clone(), l) }
            3 => fval.clone(),
            4 => other_val.clone(),
            5 => Term::atom("some atom"),
            6 => Term::List(vec![fval.clone()], None),
            7 => Term::Cmp("f".into(), vec![fval.clone()]),
            8 => { // another function with the same value
                match &fval { Term::Int(i) => Term::Func("add".into(), vec![Term::Int(*i - 1), Term::Int(1)]),
                              Term::Float(x) => Term::Func("multiply".into(), vec![Term::Float(*x), Term::Int(1)]),
                              Term::Atom(a) => Term::Func("join".into(), vec![Term::Atom(a.clone())]), t => t.clone() } }
            _ => gen_fun(s, &mut sc),
        };
        rep.class(&format!("partner:{}", ["unbound-var", "var=value", "var=other", "equal-const", "other-const", "atom", "list", "complex", "equal-function", "random-function", "own-argument-variable"][pk as usize]));
        let mut results = vec![];
        for fun_left in [true, false] {
            let mut sc2 = Scn { goals: sc.goals.clone(), vars: sc.vars.clone(), uses_copy: sc.uses_copy };
            let emb = |t: &Term| -> Term { match wrap { 1 => Term::Cmp("w".into(), vec![t.clone()]), 2 => Term::Cmp("w".into(), vec![Term::atom("k"), t.clone(), Term::Int(7)]), _ => t.clone() } };
            sc2.goals.push(if fun_left { Goal::Unify(emb(&f), emb(&partner)) } else { Goal::Unify(emb(&partner), emb(&f)) });
            let p = sc2.program(vec![]);
            match run(self.id, &p, None) {
                Ok(c) => results.push((p, c)),
                Err(CaseResult::Discard(w)) => return CaseResult::Discard(w),
                Err(r) => return r,
            }
        }
        let a: Vec<Vec<Term>> = results[0].1.run.answers.iter().map(|x| x.args.clone()).collect();
        let b: Vec<Vec<Term>> = results[1].1.run.answers.iter().map(|x| x.args.clone()).collect();
        if a.len() != b.len() || !a.iter().zip(b.iter()).all(|(x, y)| crate::rt::variant(x, y)) {
            return fail(self.id, "sides-differ", format!("function left: {:?}\nfunction right: {:?}", a, b), format!("{}", results[0].0));
        }
        rep.class(if a.is_empty() { "outcome:fails" } else { "outcome:unifies" });
        rep.class(["operands:top-level", "operands:arguments-of-w/1", "operands:arguments-of-w/3"][wrap]);
        rep.nontrivial(fnv(&format!("{}", results[0].0)));
        rep.sample(json!({"function_left": format!("{}", results[0].0), "function_right_body": format!("{}", results[1].0.clauses.last().unwrap()), "unifies": !a.is_empty()}));
        CaseResult::Pass
    }

    // -------------------------------------------------------------- C14
    fn compare(&self, s: &mut dyn Src, rep: &mut Report) -> CaseResult {
        let mut sc = Scn::new();
        let operand = |s: &mut dyn Src| -> Term {
            match weighted(s, &[6, 5, 5, 1, 1, 1, 1]) {
                0 => Term::Int(pick(s, &INTS)),
                1 => Term::Float(pick(s, &FLOATS)),
                2 => Term::atom(pick(s, &ATOMS)),
                3 => Term::Var("UNBOUND".into()),
                4 => Term::Anon,
                5 => Term::List(vec![Term::Int(1)], None),
                _ => Term::Cmp("f".into(), vec![Term::Int(1)]),
            }
        };
        let op = pick(s, &CmpOp::ALL);
        let l = operand(s);
        // the right operand is often related to the left one
        let r = match s.draw(4) { 0 => l.clone(), 1 => match &l { Term::Int(i) => Term::Float(*i as f64), Term::Float(f) if f.is_finite() && f.abs() < 9e18 => Term::Int(*f as i64), _ => operand(s) }, _ => operand(s) };
        let (kl, kr) = (kind(&l), kind(&r));
        let pres = weighted(s, &[4, 2, 2]); // api, text named, text infix
        let mut chain = false;
        let mut mk = |s: &mut dyn Src, sc: &mut Scn, t: &Term| -> Term {
            match t {
                // an unbound operand: a fresh variable, or a variable aliased (in either direction, so also "older bound
                // to newer") to another variable that is still unbound
                Term::Var(_) => match s.draw(3) {
                    0 => Term::Var(sc.fresh()),
                    // (variables local to the rule body - not in its head - so nothing has sized the binding vector for them)
                    1 => { let n = sc.goals.len(); let (a, b) = (format!("$La{}", n), format!("$Lb{}", n)); sc.goals.push(Goal::Unify(Term::Var(a.clone()), Term::Var(b))); Term::Var(a) }
                    _ => { let n = sc.goals.len(); let (a, b) = (format!("$La{}", n), format!("$Lb{}", n)); sc.goals.push(Goal::Unify(Term::Var(b.clone()), Term::Var(a))); Term::Var(b) }
                },
                Term::Anon => Term::Anon,
                _ => { let (x, b) = sc.present(s, t.clone()); chain |= b; x }
            }
        };
        let tl = mk(s, &mut sc, &l);
        let tr = mk(s, &mut sc, &r);
        sc.goals.push(Goal::Compare(op, tl, tr));
        let p = sc.program(vec![]);
        let tight = chance(s, 1, 3);
        let style = match pres { 1 => Some(render::Style { tight_commas: tight, ..render::CANON }), 2 => Some(render::Style { infix_compare: true, tight_commas: tight, ..render::CANON }), _ => None };
        if style.is_some() && !program_text_safe(&p) { return CaseResult::Discard("operand has no source-text form".into()); }
        let cmp = match run(self.id, &p, style) { Ok(c) => c, Err(r) => return r };
        let n = cmp.run.answers.len();
        if n > 1 { return fail(self.id, "succeeded-twice", format!("{} answers", n), format!("{}", p)); }
        // table oracle, stated directly (independent of the solver plumbing)
        let expect = {
            let rl = to_rt(&l); let rr = to_rt(&r);
            compare_consts(op, &rl, &rr)
        };
        if (n == 1) != expect { return fail(self.id, "wrong-outcome", format!("{} {} {} should {}", l, op.infix(), r, if expect { "succeed" } else { "fail" }), format!("{}", p)); }
        rep.class(&format!("cell:{}:{}x{}", op.infix(), kl, kr));
        rep.class(&format!("presentation:{}", ["api", "text-named", "text-infix"][pres]));
        if chain { rep.class("operand-through-variable-chain"); }
        let differing_ops = kl == kr && l == r;
        if kl != kr || differing_ops {
            rep.nontrivial(fnv(&format!("{}", p)));
            rep.sample(json!({"program": format!("{}", p), "succeeds": n == 1}));
        }
        CaseResult::Pass
    }

    // -------------------------------------------------------------- C15
    fn lists(&self, s: &mut dyn Src, rep: &mut Report) -> CaseResult {
        fn elem(s: &mut dyn Src, depth: u32) -> Term {
            match weighted(s, &[4, 2, 2, 1, if depth < 2 { 3 } else { 0 }, 1]) {
                0 => Term::atom(pick(s, &["a", "b", "c d"])),
                1 => Term::Int(s.draw(50) as i64),
                2 => Term::Var(pick(s, &["$X", "$Y", "$Z"]).to_string()),
                3 => Term::Anon,
                4 => { let n = s.draw(3) as usize; Term::List((0..n).map(|_| elem(s, depth + 1)).collect(), None) }
                _ => if depth < 5 { Term::Cmp("f".into(), vec![elem(s, depth.max(2) + 1)]) } else { Term::atom("a") },
            }
        }
        let n = sz(s, 6, 41) as usize;
        let mut seq: Vec<Term> = (0..n).map(|_| elem(s, 0)).collect();
        // bias: list-valued / empty-list element in last position
        if n > 0 && chance(s, 1, 3) { let k = s.draw(3) as usize; seq[n - 1] = Term::List((0..k).map(|_| elem(s, 1)).collect(), None); }
        let tail = if n > 0 && chance(s, 1, 3) { Some(Box::new(if chance(s, 1, 4) { Term::Anon } else { Term::var("$T") })) } else { None };
        let want = Term::List(seq.clone(), tail.clone());
        let case = format!("{}", want);
        // the parsers reject complex terms longer than 1000 bytes (documented: "String is too long")
        if case.len() > 800 { return CaseResult::Discard("text longer than the parsers' documented 1000-byte limit".into()); }
        let ids: std::collections::HashMap<String, usize> = [("$X", 1), ("$Y", 2), ("$Z", 3), ("$T", 4), ("$O", 5), ("$U", 6)].iter().map(|(a, b)| (a.to_string(), *b)).collect();
        let reference = to_engine(&want, &Ids::Zero);
        let builder = s.draw(6);
        rep.class(&format!("builder:{}", ["parse_linked_list", "recreate_variables", "append", "include", "exclude", "make_linked_list"][builder as usize]));
        let check_built = |built: &suiron::Unifiable, expect: &Term, what: &str| -> Option<CaseResult> {
            let probs = wf_problems(built);
            if !probs.is_empty() { return Some(fail(self.id, "malformed-list", format!("{}: {:?}\nbuilt: {:?}", what, probs, built), case.clone())); }
            let mut sh = Shape::default();
            let dec = strip_ids(&from_engine(built, &mut sh));
            if dec != *expect { return Some(fail(self.id, "elements-differ", format!("{}: expected {} got {}", what, expect, dec), case.clone())); }
            if let suiron::Unifiable::SLinkedList { count, .. } = built {
                let len = match expect { Term::List(es, t) => es.len() + t.is_some() as usize, _ => 0 };
                if *count != len { return Some(fail(self.id, "count-differs", format!("{}: count {} for {} elements", what, count, len), case.clone())); }
            }
            None
        };
        match builder {
            0 | 1 => {
                let text = render::term(&want, &render::CANON);
                let parsed = match guarded(u64::MAX, || suiron::parse_linked_list(&text)) {
                    Ok(Ok(u)) => u,
                    Ok(Err(e)) => return fail(self.id, "parser-rejected", format!("parse_linked_list({:?}) -> {}", text, e), case),
                    Err(f) => return fail(self.id, "engine-failure", format!("parse_linked_list({:?}): {:?}", text, f), case),
                };
                let built = if builder == 0 { parsed } else {
                    suiron::clear_id();
                    match guarded(u64::MAX, || parsed.recreate_variables(&mut suiron::VarMap::new())) { Ok(u) => u, Err(f) => return fail(self.id, "engine-failure", format!("recreate_variables: {:?}", f), case) }
                };
                if let Some(r) = check_built(&built, &want, if builder == 0 { "parse_linked_list" } else { "recreate_variables(parse_linked_list)" }) { return r; }
                if builder == 0 && built != reference { return fail(self.id, "not-equal-to-reference-list", format!("parsed {:?}\nreference {:?}", built, reference), case); }
                // unifies with the reference list in both directions (ids given to both sides)
                let a = to_engine(&want, &Ids::Map(&ids));
                let ss = std::rc::Rc::new(suiron::SubstitutionSet::new());
                let b = a.clone();
                for (x, y) in [(&a, &b)] {
                    match guarded(u64::MAX, || (x.unify(y, &ss).is_some(), y.unify(x, &ss).is_some())) {
                        Ok((true, true)) => {}
                        Ok(o) => return fail(self.id, "does-not-unify-with-itself", format!("{:?}", o), case),
                        Err(f) => return fail(self.id, "engine-failure", format!("{:?}", f), case),
                    }
                }
            }
            2 | 3 | 4 => {
                // append(L1, L2, $O) / include($_, L, $O) / exclude(zzz, L, $O) must give exactly seq
                if matches!(tail.as_deref(), Some(Term::Anon)) { return CaseResult::Discard("open list as built-in input".into()); }
                if builder == 4 && !want.is_ground() { return CaseResult::Discard("exclude needs a ground list".into()); }
                // a tail variable is bound (by an earlier unification) to the rest of the sequence: the input is
                // [e1 .. ek | $T] with $T = [ek+1 .. en], and the result must still be exactly e1 .. en
                // ... and sometimes the rest is itself written with a second tail variable: [e1..ek | $T], $T = [..em | $U], $U = [..en]
                let mut second_tail: Option<Term> = None;
                let (input, bound_tail): (Term, Option<Term>) = if tail.is_some() {
                    let k = 1 + s.draw(n as u32) as usize;
                    rep.class("built-in input with a bound tail variable");
                    if n - k >= 1 && chance(s, 1, 2) {
                        let m = k + 1 + s.draw((n - k) as u32) as usize;
                        rep.class("built-in input with two chained tail variables");
                        second_tail = Some(Term::List(seq[m..].to_vec(), None));
                        (Term::List(seq[..k].to_vec(), Some(Box::new(Term::var("$T")))), Some(Term::List(seq[k..m].to_vec(), Some(Box::new(Term::var("$U"))))))
                    } else {
                        (Term::List(seq[..k].to_vec(), Some(Box::new(Term::var("$T")))), Some(Term::List(seq[k..].to_vec(), None)))
                    }
                } else { (Term::List(seq.clone(), None), None) };
                let g = match builder {
                    2 if bound_tail.is_some() => Goal::BuiltIn("append".into(), vec![input.clone(), Term::List(vec![], None), Term::var("$O")]),
                    2 => { let k = s.draw(n as u32 + 1) as usize; Goal::BuiltIn("append".into(), vec![Term::List(seq[..k].to_vec(), None), Term::List(seq[k..].to_vec(), None), Term::var("$O")]) }
                    3 => Goal::BuiltIn("include".into(), vec![Term::Anon, input.clone(), Term::var("$O")]),
                    _ => Goal::BuiltIn("exclude".into(), vec![Term::atom("zzz"), input.clone(), Term::var("$O")]),
                };
                let eg = goal_to_engine(&g, &Ids::Map(&ids));
                let tail_binding = bound_tail.as_ref().map(|t| to_engine(t, &Ids::Map(&ids)));
                let second_binding = second_tail.as_ref().map(|t| to_engine(t, &Ids::Map(&ids)));
                let r = guarded(1_000_000, || {
                    suiron::start_query();
                    let kb = suiron::KnowledgeBase::new();
                    let base = suiron::make_base_node(std::rc::Rc::new(suiron::make_query(vec![suiron::Unifiable::Atom("go".into())])), &kb);
                    let mut ss0 = std::rc::Rc::new(suiron::SubstitutionSet::new());
                    if let Some(tb) = &tail_binding {
                        let tv = suiron::Unifiable::LogicVar { id: 4, name: "$T".into() };
                        ss0 = tv.unify(tb, &ss0).expect("binding the tail variable");
                    }
                    if let Some(sb) = &second_binding {
                        let uv = suiron::Unifiable::LogicVar { id: 6, name: "$U".into() };
                        ss0 = uv.unify(sb, &ss0).expect("binding the second tail variable");
                    }
                    let sn = suiron::make_solution_node(std::rc::Rc::new(eg), &kb, ss0, base);
                    suiron::next_solution(sn).map(|ss| ss[5].as_ref().map(|t| (**t).clone()))
                });
                let built = match r { Ok(Some(Some(u))) => u, Ok(o) => return fail(self.id, "no-result", format!("{} gave {:?}", g, o), case), Err(f) => return fail(self.id, "engine-failure", format!("{}: {:?}", g, f), case) };
                let expect = Term::List(seq.iter().map(|t| t.map_vars(&mut |n: &str| Term::Var(n.to_string()))).collect(), None);
                if let Some(r) = check_built(&built, &expect, &format!("{}", g)) { return r; }
            }
            _ => {
                // documented constructor: elements as given; vbar => last is the tail; trailing list spliced
                let vbar = tail.is_some();
                let mut terms: Vec<Term> = seq.clone();
                if let Some(t) = &tail { terms.push((**t).clone()); }
                if !vbar && terms.len() == 1 && matches!(terms[0], Term::List(..)) {
                    // `[ | [b, c]]` has no written form: whether a lone list argument is an
                    // element or the rest of the list is not specified
                    return CaseResult::Discard("constructor with a single list argument (unspecified)".into());
                }
                let expect = if vbar { want.clone() } else {
                    match terms.last() {
                        Some(Term::List(more, t2)) => { let mut es = terms[..terms.len() - 1].to_vec(); es.extend(more.iter().cloned()); Term::List(es, t2.clone()) }
                        _ => Term::List(terms.clone(), None),
                    }
                };
                let eterms: Vec<suiron::Unifiable> = terms.iter().map(|t| to_engine(t, &Ids::Zero)).collect();
                let built = match guarded(u64::MAX, || suiron::make_linked_list(vbar, eterms)) { Ok(u) => u, Err(f) => return fail(self.id, "engine-failure", format!("make_linked_list: {:?}", f), case) };
                if let Some(r) = check_built(&built, &expect, "make_linked_list") { return r; }
                if matches!(terms.last(), Some(Term::List(..))) && !vbar { rep.class("constructor-splices-trailing-list"); }
            }
        }
        let interesting = seq.iter().any(|t| matches!(t, Term::List(..))) || tail.is_some();
        if interesting { rep.nontrivial(fnv(&format!("{}|{}", builder, case))); rep.sample(json!({"list": case, "builder": builder})); }
        if seq.last().map_or(false, |t| matches!(t, Term::List(..))) { rep.class("list-valued-last-element"); }
        if seq.iter().any(|t| *t == Term::List(vec![], None)) { rep.class("empty-list-element"); }
        CaseResult::Pass
    }

    // -------------------------------------------------------------- C16 / C17 helpers
    fn list_value(s: &mut dyn Src, sc: &mut Scn, depth: u32, flags: &mut (bool, bool, bool, bool)) -> Term {
        // flags: (bound tail used, list-valued last element, element through variable)
        let n = sz(s, 4, 33) as usize;
        let mut es = vec![];
        for i in 0..n {
            let e = match weighted(s, &[5, 2, 2, 1]) {
                0 => Term::atom(pick(s, &["a", "b", "c"])),
                1 => Term::Int(s.draw(5) as i64),
                2 => if depth < 2 { let k = s.draw(3) as usize; if i + 1 == n { flags.1 = true; } Term::List((0..k).map(|_| Term::atom(pick(s, &["x", "y"]))).collect(), None) } else { Term::atom("d") },
                _ => Term::Cmp("f".into(), vec![Term::Int(s.draw(3) as i64)]),
            };
            if chance(s, 1, 4) && !matches!(e, Term::List(..)) { flags.2 = true; let l = s.draw(2); es.push(sc.bind(s, e, l)); } else { es.push(e); }
        }
        let tail = if n > 0 && depth < 2 && chance(s, 1, 3) {
            flags.0 = true;
            let how = s.draw(4);
            let order = s.draw(4);
            let inner = Self::list_value(s, sc, depth + 1, flags);
            if how == 0 {
                // the tail variable is bound by unifying this open list with another open list whose tail variable meets
                // it at the same position ([a, b | $T] = [a, $H | $U], $U = [...]), in either order, $U bound before or after
                let (t, u) = (Term::Var(sc.fresh()), Term::Var(sc.fresh()));
                let mine = Term::List(es.clone(), Some(Box::new(t.clone())));
                let heads: Vec<Term> = es.iter().map(|e| if chance(s, 1, 2) { e.clone() } else { Term::Var(sc.fresh()) }).collect();
                let theirs = Term::List(heads, Some(Box::new(u.clone())));
                let bind_u = Goal::Unify(u, inner);
                if order & 2 == 0 { sc.goals.push(bind_u.clone()); }
                sc.goals.push(if order & 1 == 0 { Goal::Unify(mine, theirs) } else { Goal::Unify(theirs, mine) });
                if order & 2 != 0 { sc.goals.push(bind_u); }
                flags.3 = true;
                Some(Box::new(t))
            } else {
                let l = s.draw(2);
                Some(Box::new(sc.bind(s, inner, l)))
            }
        } else { None };
        let l = Term::List(es, tail);
        if depth == 0 && chance(s, 1, 5) { flags.0 = true; return sc.through_copy(l); }
        l
    }

    // -------------------------------------------------------------- C16
    fn append(&self, s: &mut dyn Src, rep: &mut Report) -> CaseResult {
        let mut sc = Scn::new();
        let mut flags = (false, false, false, false);
        let k = 1 + sz(s, 4, 9) as usize;
        let mut args = vec![];
        for _ in 0..k {
            let v = match weighted(s, &[4, 1, 1, 1]) {
                0 => Self::list_value(s, &mut sc, 0, &mut flags),
                1 => Term::atom(pick(s, &["a", "b"])),
                2 => small_num(s),
                _ => Term::Cmp("g".into(), vec![Term::atom("a")]),
            };
            let (t, _) = if matches!(v, Term::List(..)) && chance(s, 1, 2) { (v, false) } else { sc.present(s, v) };
            args.push(t);
        }
        let okind = s.draw(4);
        let out = match okind {
            0 | 1 => Term::Var(sc.fresh()),
            2 => Term::List(vec![Term::Var(sc.fresh())], Some(Box::new(Term::Var(sc.fresh())))),
            _ => Term::List(vec![Term::atom("a"), Term::atom("b")], None),
        };
        args.push(out);
        sc.goals.push(Goal::BuiltIn("append".into(), args));
        let p = sc.program(vec![]);
        let cmp = match run(self.id, &p, None) { Ok(c) => c, Err(r) => return r };
        if cmp.run.answers.len() > 1 { return fail(self.id, "succeeded-twice", format!("{} answers", cmp.run.answers.len()), format!("{}", p)); }
        if flags.0 { rep.class("input-list-with-bound-tail"); }
        if flags.1 { rep.class("input-list-with-list-valued-last-element"); }
        if flags.2 { rep.class("element-is-a-bound-variable"); }
        if flags.3 { rep.class("tail-bound-by-unifying-two-open-lists"); }
        rep.class(&format!("out:{}", ["unbound", "unbound", "pattern", "literal"][okind as usize]));
        if flags.0 || flags.1 { rep.nontrivial(fnv(&format!("{}", p))); rep.sample(json!({"program": format!("{}", p), "answers": cmp.run.answers.iter().map(|a| a.display.clone()).collect::<Vec<_>>()})); }
        CaseResult::Pass
    }

    // -------------------------------------------------------------- C17
    fn misc(&self, s: &mut dyn Src, rep: &mut Report) -> CaseResult {
        let mut sc = Scn::new();
        let mut flags = (false, false, false, false);
        let which = s.draw(5);
        let mut filter_has_var = false;
        let mut punct_late = false;
        match which {
            0 => {
                let l = Self::list_value(s, &mut sc, 0, &mut flags);
                let (lt, _) = if chance(s, 1, 2) { (l, false) } else { sc.present(s, l) };
                let out = match s.draw(3) { 0 => Term::Int(s.draw(5) as i64), _ => Term::Var(sc.fresh()) };
                sc.goals.push(Goal::BuiltIn("count".into(), vec![lt, out]));
            }
            1 | 2 => {
                let l = Self::list_value(s, &mut sc, 0, &mut flags);
                let (lt, _) = if chance(s, 1, 2) { (l, false) } else { sc.present(s, l) };
                let pat = match s.draw(7) {
                    0 => Term::atom("a"), 1 => Term::Int(1), 2 => Term::Anon,
                    3 => Term::Cmp("f".into(), vec![Term::Anon]),
                    4 => { filter_has_var = true; Term::Cmp("f".into(), vec![Term::Var(sc.fresh())]) }
                    5 => { filter_has_var = true; Term::Var(sc.fresh()) }
                    _ => { filter_has_var = true; Term::List(vec![Term::Var(sc.fresh())], Some(Box::new(Term::Anon))) }
                };
                let out = Term::Var(sc.fresh());
                sc.goals.push(Goal::BuiltIn(if which == 1 { "include" } else { "exclude" }.into(), vec![pat, lt, out]));
            }
            3 => {
                let name = pick(s, &["noun", "noun_phrase", "np", "f", "verb"]);
                let ar = sz(s, 5, 14) as usize;
                let t = Term::Cmp(name.to_string(), (0..ar).map(|_| Term::atom(pick(s, &["x", "y"]))).collect());
                let (tt, _) = sc.present(s, t);
                let fa = match s.draw(8) {
                    0 | 1 => Term::Var(sc.fresh()),
                    2 => Term::atom(name),
                    3 => Term::atom(&format!("{}*", name)),
                    4 => Term::atom(&format!("{}*", &name[..name.len().min(2)])),
                    5 => {
                        // pattern chosen independently of the term: shorter than, equal to, longer than the functor,
                        // a prefix of it or not (noun vs noun_phrase*, verb vs verbal*, np vs n*, ...), with or without `*`
                        let base = pick(s, &["noun", "noun_phrase", "noun_", "nou", "no", "n", "np", "npx", "verb", "verbal", "ver", "f", "fo", "x"]);
                        if chance(s, 3, 4) { Term::atom(&format!("{}*", base)) } else { Term::atom(base) }
                    }
                    6 => Term::atom("*"),
                    _ => sc.bind(s, Term::atom(name), 0),
                };
                // the pattern (exact name or prefix*) may also arrive through a bound variable
                let fa = if matches!(fa, Term::Atom(_)) && chance(s, 1, 3) { let l = s.draw(2); sc.bind(s, fa, l) } else { fa };
                let mut args = vec![tt, fa];
                if chance(s, 2, 3) { args.push(match s.draw(3) { 0 => Term::Int(ar as i64), 1 => Term::Int(ar as i64 + 1), _ => Term::Var(sc.fresh()) }); }
                sc.goals.push(Goal::BuiltIn("functor".into(), args));
            }
            _ => {
                let n = 1 + sz(s, 5, 20) as usize;
                let mut args = vec![];
                let mut pos = 0;
                for _ in 0..n {
                    let w = match s.draw(8) {
                        0 => Term::atom(","), 1 => Term::atom("."), 2 => Term::atom("?"), 3 => Term::atom("!"),
                        4 => Term::Int(s.draw(100) as i64),
                        5 => {
                            let k = 1 + s.draw(3) as usize;
                            let mut es = vec![];
                            for _ in 0..k {
                                let e = if chance(s, 1, 3) { Term::atom(pick(s, &[",", ".", "!"])) } else { Term::atom(pick(s, &["big", "red", "dog"])) };
                                // a list element may itself be a variable bound to the word
                                if chance(s, 1, 4) { flags.2 = true; es.push(sc.bind(s, e, 0)); } else { es.push(e); }
                            }
                            Term::List(es, None)
                        }
                        _ => Term::atom(pick(s, &["the", "cat", "sat", "Hello World"])),
                    };
                    if let Term::Atom(a) = &w { if is_punct(a) && pos > 0 { punct_late = true; } }
                    if let Term::List(es, _) = &w { for (i, e) in es.iter().enumerate() { if let Term::Atom(a) = e { if is_punct(a) && (pos > 0 || i > 0) { punct_late = true; } } } }
                    pos += 1;
                    let (t, _) = sc.present(s, w);
                    args.push(t);
                }
                let out = Term::Var(sc.fresh());
                sc.goals.push(Goal::Unify(out, Term::Func("join".into(), args)));
            }
        }
        let p = sc.program(vec![]);
        let cmp = match run(self.id, &p, None) { Ok(c) => c, Err(r) => return r };
        if cmp.run.answers.len() > 1 { return fail(self.id, "succeeded-twice", format!("{} answers", cmp.run.answers.len()), format!("{}", p)); }
        rep.class(&format!("builtin:{}", ["count", "include", "exclude", "functor", "join"][which as usize]));
        if flags.0 { rep.class("bound-tail-traversed"); }
        if filter_has_var { rep.class("filter-contains-variable"); }
        if punct_late { rep.class("join-punctuation-not-first"); }
        if flags.0 || filter_has_var || punct_late {
            rep.nontrivial(fnv(&format!("{}", p)));
            rep.sample(json!({"program": format!("{}", p), "answers": cmp.run.answers.iter().map(|a| a.display.clone()).collect::<Vec<_>>()}));
        }
        CaseResult::Pass
    }
}

fn to_rt(t: &Term) -> crate::rt::RT {
    let mut s = crate::rt::Subst::new();
    let mut env = std::collections::HashMap::new();
    crate::rt::instantiate(t, &mut env, &mut s)
}

impl Property for BuiltinProp {
    fn id(&self) -> &'static str { self.id }
    fn max_len(&self) -> usize { 160 }
    fn budget(&self) -> (u64, u64) { (12_000, 80_000) }

    fn check(&self, src: &mut dyn Src, rep: &mut Report) -> CaseResult {
        match self.aspect {
            BAspect::Arith => self.arith(src, rep),
            BAspect::FuncSides => self.func_sides(src, rep),
            BAspect::Compare => self.compare(src, rep),
            BAspect::Lists => self.lists(src, rep),
            BAspect::Append => self.append(src, rep),
            BAspect::Misc => self.misc(src, rep),
        }
    }

    fn rule(&self) -> String {
        match self.aspect {
            BAspect::Arith => "op in {add,subtract,multiply,divide} x 1-4 numbers from a pool (small/large ints incl. +-2^53+1, +-2^62, i64 extremes; floats incl. +-0.0, fractions, 1e16, 1e17, +-1e300) x presentation {literal via API, variables bound directly or through chains via API, source text in function form, source text in infix form} x partner {unbound variable, equal constant, different constant, same value of the other numeric type} x side. Oracle: checked i64 / f64 left fold written in the harness, result compared bit-exactly, whole program compared with the reference solver. Non-trivial = >= 2 arguments and (mixed int/float, inexact integer division, or an operand reached through a variable chain); distinct by program text. A fifth presentation supplies the operands as arguments of a fact written in text (nums(decoy, v1, .., vn).).".into(),
            BAspect::FuncSides => "a function term (arithmetic with literal/bound arguments, or join over words, punctuation, numbers, lists) paired with {unbound variable, variable bound to the value / another value, equal constant, other constant, atom, list, complex term, function of equal value, random function}, unified in both orders inside a rule. Oracle (metamorphic + reference): both orders give the same answers, equal to unifying the reference value. Every case is non-trivial; distinct by program text.".into(),
            BAspect::Compare => "operand pairs over ints (incl. extremes and neighbours of 2^53), floats (incl. -0.0/0.0, 2^53, +-1e300), atoms (unicode, spaces, digit-only, prefixes), unbound variable, $_, list, complex; second operand often equal to / the other-typed twin of the first; literal or through 1-3-link variable chains; 5 operators; via API, text named form, text infix form. Oracle: comparison table stated in the harness (numbers numerically with int->f64 conversion, atoms by string order, anything else fails) + reference solver; at most one answer. Non-trivial = operands of different kinds or identical operands; per-cell counters cell:<op>:<kind>x<kind>; distinct by program text.".into(),
            BAspect::Lists => "element sequences of length 0-5 over atoms, ints, variables, $_, nested lists (incl. [] and a list in last position), complex terms, optional tail variable / $_ tail; builders: parse_linked_list(text), recreate_variables of the parsed list, append/include/exclude whose result must be exactly the sequence, make_linked_list. Oracle (invariant + round-trip): well-formed node chain (terminator, counts, tail flag), decoded elements equal the sequence, count equals length, equal to the bridge-built list. Non-trivial = a list-valued element or a tail; distinct by (builder, list text).".into(),
            BAspect::Append => "append with 1-4 inputs (lists with nested/empty/list-valued last elements, elements that are bound variables, tails bound through chains to further lists; atoms, numbers, complex terms; literal or through variables) and Out unbound / a pattern / a literal, inside a rule that exposes every variable. Oracle: reference append (one-level flatten following bound tails) via the reference solver; at most one answer; result list well formed. Non-trivial = an input list with a bound tail or a list-valued last element; distinct by program text.".into(),
            BAspect::Misc => "count / include / exclude / functor / join scenarios over generated lists (nested, bound tails, bound-variable elements), filter patterns (constants, $_, f($_), f($V), $V, [$V | $_]), complex terms of arity 0-4 with exact / prefix* / non-matching / variable functor arguments and arity arguments, word/punctuation/number/list sequences for join; inside a rule exposing every variable (so a leaked binding shows in the answer). Oracle: reference implementations via the reference solver. Non-trivial = a bound tail is traversed, or the filter contains a variable, or join sees punctuation not in first position; distinct by program text.".into(),
        }
    }

    fn assumptions(&self) -> Vec<String> {
        vec![
            "integer overflow and integer division by zero are discarded (outside the claim); no NaN against constants".into(),
            "built-ins get inputs in their documented domain: arithmetic operands bound to numbers, list built-ins get closed lists (tails bound), filter/3, count/2, functor/2-3".into(),
            "source-text presentations use only constants that have a source-text form (no digit-only atoms, no exponents)".into(),
        ]
    }
}
