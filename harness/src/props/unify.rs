//! C06–C09: unification against the reference unifier (differential), symmetry
//! (metamorphic), acyclicity (invariant), wildcard behaviour.

use crate::ast::*;
use crate::bridge::*;
use crate::choice::*;
use crate::driver::*;
use crate::engine::*;
use crate::gen::*;
use crate::report::*;
use crate::rt::*;
use serde_json::json;
use std::collections::HashMap;
use std::rc::Rc;
use suiron::Unifiable as U;

#[derive(Clone, Copy, PartialEq, Debug)]
pub enum UAspect { Mgu, Symmetry, Acyclic, Anon }

pub struct UnifyProp { pub id: &'static str, pub aspect: UAspect }

const NAMES: [&str; 6] = ["$A", "$B", "$C", "$D", "$E", "$F"];

/// The universe variables of a history: $A..$F, followed by any further names in order of appearance
/// (the long-chain histories of C08 use $V1..$V64). Ids are positions + 1.
fn hist_names(h: &[(Term, Term)]) -> Vec<String> {
    let mut v: Vec<String> = NAMES.iter().map(|n| n.to_string()).collect();
    for (a, b) in h { a.vars(&mut v); b.vars(&mut v); }
    v
}

fn fmt_hist(h: &[(Term, Term)]) -> String {
    h.iter().map(|(a, b)| format!("{} = {}", a, b)).collect::<Vec<_>>().join(", ")
}

fn fail(id: &str, kind: &str, msg: String, h: &[(Term, Term)], upto: usize, note: &str) -> CaseResult {
    CaseResult::Fail(Failure {
        kind: kind.to_string(),
        signature: format!("{}:{}", id, kind),
        message: msg,
        case: format!("{}history: {}   (failing step {})", note, fmt_hist(h), upto + 1),
    })
}

type SS = Rc<suiron::SubstitutionSet<'static>>;

fn some_entries(ss: &suiron::SubstitutionSet) -> Vec<(usize, String)> {
    ss.iter().enumerate().filter_map(|(i, e)| e.as_ref().map(|t| (i, format!("{:?}", t)))).collect()
}

fn engine_tuple(vars: &[(String, usize)], ss: &suiron::SubstitutionSet) -> Vec<Term> {
    vars.iter().map(|(n, id)| { let mut fuel = 50_000; resolve_engine(&U::LogicVar { id: *id, name: n.clone() }, ss, &mut fuel) }).collect()
}

struct Outcome {
    /// per step: Some(success) ; history may stop early (occurs)
    steps: Vec<bool>,
    final_tuple: Vec<Term>,
    stopped_occurs: bool,
}

impl UnifyProp {
    /// Run a history through engine and reference in lock step.
    /// `renamed`: pass every term through recreate_variables with one shared VarMap first.
    /// `swap`: unify(right, left) instead of unify(left, right) at every step.
    fn run_history(&self, h: &[(Term, Term)], renamed: bool, swap: bool, rep: &mut Report) -> Result<Outcome, CaseResult> {
        self.run_history_built(h, renamed, swap, 0, rep)
    }

    /// `constructor`: every list is rebuilt with the documented constructor make_linked_list (what `slist!` calls) from its
    /// element terms and tail, instead of the node-by-node form the parser produces - both must unify alike.
    fn run_history_built(&self, h: &[(Term, Term)], renamed: bool, swap: bool, constructor: u8, rep: &mut Report) -> Result<Outcome, CaseResult> {
        let id = self.id;
        let note = format!("{}{}{}", if renamed { "[after recreate_variables] " } else { "" }, if swap { "[sides swapped] " } else { "" }, ["", "[lists built with make_linked_list] ", "[terms parsed from their source text] "][constructor as usize]);
        // engine terms
        let names = hist_names(h);
        let ids: HashMap<String, usize> = names.iter().enumerate().map(|(i, n)| (n.clone(), i + 1)).collect();
        let mut eterms: Vec<(U, U)> = h.iter().map(|(a, b)| (to_engine(a, &Ids::Map(&ids)), to_engine(b, &Ids::Map(&ids)))).collect();
        let mut vars: Vec<(String, usize)> = names.iter().enumerate().map(|(i, n)| (n.clone(), i + 1)).collect();
        let mut renamed = renamed;
        if constructor == 2 {
            // every term is written as source text and read back by parse_term (variables then get their ids from
            // recreate_variables, as in a parsed rule); a text the parser rejects is not this property's business
            let r = guarded(u64::MAX, || -> Option<Vec<(U, U)>> {
                let mut v = vec![];
                for (a, b) in h {
                    let pa = suiron::parse_term(&crate::render::term(a, &crate::render::CANON)).ok()?;
                    let pb = suiron::parse_term(&crate::render::term(b, &crate::render::CANON)).ok()?;
                    v.push((pa, pb));
                }
                Some(v)
            });
            match r {
                Ok(Some(v)) => { eterms = v; renamed = true; }
                Ok(None) => return Err(CaseResult::Discard("no source text".into())),
                Err(f) => return Err(fail(id, "engine-failure", format!("parse_term: {:?}", f), h, 0, &note)),
            }
        }
        if constructor == 1 {
            fn rebuild(u: &U) -> U {
                match u {
                    U::SComplex(v) => U::SComplex(v.iter().map(rebuild).collect()),
                    U::SLinkedList { count, .. } if *count == 0 => u.clone(),
                    U::SLinkedList { .. } => {
                        let mut terms = vec![];
                        let mut vbar = false;
                        let mut cur = u;
                        while let U::SLinkedList { term, next, count, tail_var } = cur {
                            if *count == 0 { break; }
                            terms.push(rebuild(term));
                            if *tail_var { vbar = true; }
                            cur = next;
                        }
                        // a trailing list argument is *spliced* by the constructor (documented: `[a | [b, c]]`), so a list
                        // whose last element is itself a list has no constructor call that builds it: keep the parser's form
                        if !vbar && matches!(terms.last(), Some(U::SLinkedList { .. })) { return u.clone(); }
                        suiron::make_linked_list(vbar, terms)
                    }
                    other => other.clone(),
                }
            }
            let r = guarded(u64::MAX, || eterms.iter().map(|(a, b)| (rebuild(a), rebuild(b))).collect::<Vec<_>>());
            match r {
                Ok(v) => eterms = v,
                Err(f) => return Err(fail(id, "engine-failure", format!("make_linked_list: {:?}", f), h, 0, "[lists built with make_linked_list] ")),
            }
        }
        if renamed {
            suiron::clear_id();
            let mut vm = suiron::VarMap::new();
            let r = guarded(u64::MAX, || {
                eterms.iter().map(|(a, b)| (a.clone().recreate_variables(&mut vm), b.clone().recreate_variables(&mut vm))).collect::<Vec<_>>()
            });
            match r {
                Ok(v) => eterms = v,
                Err(f) => return Err(fail(id, "engine-failure", format!("recreate_variables: {:?}", f), h, 0, &note)),
            }
            vars = names.iter().filter_map(|n| vm.get(n.as_str()).map(|i| (n.clone(), *i))).collect();
        }
        // reference terms: RT::Var(k) for the k-th universe variable present
        let mut s = Subst::new();
        let mut env: HashMap<String, usize> = HashMap::new();
        for (n, _) in &vars { let v = s.fresh(); env.insert(n.clone(), v); }
        let rvars: Vec<RT> = vars.iter().map(|(n, _)| RT::Var(env[n])).collect();

        let mut ss: SS = Rc::new(suiron::SubstitutionSet::new());
        let mut steps = vec![];
        let mut stopped_occurs = false;
        for (k, (a, b)) in h.iter().enumerate() {
            let ra = instantiate(a, &mut env, &mut s);
            let rb = instantiate(b, &mut env, &mut s);
            let already_same = { let x = s.resolve(&ra); let y = s.resolve(&rb); x == y && !x.has_anon() };
            let mark = s.mark();
            let ok_ref = if swap { s.unify(&rb, &ra) } else { s.unify(&ra, &rb) };
            if s.occurs_hit { stopped_occurs = true; break; }
            let (l, r) = if swap { (&eterms[k].1, &eterms[k].0) } else { (&eterms[k].0, &eterms[k].1) };
            let before = some_entries(&ss);
            let res = guarded(u64::MAX, || l.unify(r, &ss).map(|x| { let v: suiron::SubstitutionSet = (*x).clone(); v }));
            let res = match res {
                Ok(r) => r,
                Err(f) => return Err(fail(id, &format!("engine-failure:{}", f.signature()), format!("unify failed with {:?}; reference says {}", f, if ok_ref { "unifiable" } else { "not unifiable" }), h, k, &note)),
            };
            if res.is_some() != ok_ref {
                return Err(fail(id, "success-differs", format!("engine {} but reference {}", if res.is_some() { "unified" } else { "failed" }, if ok_ref { "unifies" } else { "fails" }), h, k, &note));
            }
            steps.push(ok_ref);
            if !ok_ref { s.undo(mark); continue; }
            let new_ss = res.unwrap();
            if let Some(i) = alias_cycle(&new_ss) {
                return Err(fail(id, "binding-cycle", format!("binding chain from index {} returns to itself: {:?}", i, some_entries(&new_ss)), h, k, &note));
            }
            // earlier bindings are kept untouched
            let after = some_entries(&new_ss);
            for e in &before { if !after.contains(e) { return Err(fail(id, "earlier-binding-lost", format!("binding {:?} disappeared or changed; now {:?}", e, after), h, k, &note)); } }
            // both sides identical when fully resolved (wildcards match anything)
            let mut fuel = 50_000;
            let tl = resolve_engine(l, &new_ss, &mut fuel);
            let tr = resolve_engine(r, &new_ss, &mut fuel);
            if !equal_mod_anon(&tl, &tr) {
                return Err(fail(id, "sides-not-identical", format!("after unification the sides resolve to {} and {}", tl, tr), h, k, &note));
            }
            // joint resolved tuple is a variant of the reference's (=> mgu, nothing more, nothing less)
            let et = engine_tuple(&vars, &new_ss);
            let rt: Vec<Term> = rvars.iter().map(|v| s.resolve(v)).collect();
            if !variant(&et, &rt) {
                return Err(fail(id, "not-an-mgu", format!("variables {:?}\nengine:    {}\nreference: {}", vars.iter().map(|v| &v.0).collect::<Vec<_>>(),
                    et.iter().map(|t| t.to_string()).collect::<Vec<_>>().join(" | "), rt.iter().map(|t| t.to_string()).collect::<Vec<_>>().join(" | ")), h, k, &note));
            }
            // aliased-already / wildcard steps add no binding
            let bare_anon = matches!(a, Term::Anon) || matches!(b, Term::Anon);
            if (already_same || bare_anon) && after.len() != before.len() {
                let kind = if bare_anon { "anon-created-binding" } else { "binding-added-for-already-equal-terms" };
                return Err(fail(id, kind, format!("bindings before {:?}\nafter {:?}", before, after), h, k, &note));
            }
            if already_same { rep.class("step-on-already-equal-terms"); }
            // the engine's own accessors agree with the harness's walker
            for (n, vid) in &vars {
                let v = U::LogicVar { id: *vid, name: n.clone() };
                let mine = { let mut fuel = 50_000; resolve_engine(&v, &new_ss, &mut fuel) };
                let theirs = guarded(u64::MAX, || v.replace_variables(&new_ss));
                match theirs {
                    Ok(u) => { let mut sh = Shape::default(); let t = from_engine(&u, &mut sh);
                        if t != mine { return Err(fail(id, "replace_variables-differs", format!("{}: walker {} vs replace_variables {}", n, mine, t), h, k, &note)); } }
                    Err(f) => return Err(fail(id, "engine-failure:replace_variables", format!("{:?}", f), h, k, &note)),
                }
                let bound = suiron::is_bound(&v, &new_ss);
                let ground = suiron::get_ground_term(&v, &new_ss).is_some();
                let isg = suiron::is_ground_variable(&v, &new_ss);
                if ground != isg || (ground && !bound) {
                    return Err(fail(id, "accessors-disagree", format!("{}: is_bound={} get_ground_term.is_some={} is_ground_variable={}", n, bound, ground, isg), h, k, &note));
                }
            }
            ss = Rc::new(new_ss);
        }
        let mut fuel = 50_000;
        let _ = &mut fuel;
        let final_tuple = engine_tuple(&vars, &ss);
        Ok(Outcome { steps, final_tuple, stopped_occurs })
    }

    /// A generated program (alias-heavy bodies, facts with variables nested in structures) that needs no occurs check by
    /// the reference: after every answer the substitution set itself is searched for a binding cycle, before anything
    /// resolves or prints it; then the answer is resolved and compared with the reference.
    fn check_alias_program(&self, s: &mut dyn Src, rep: &mut Report) -> CaseResult {
        use crate::refsolve::{solve_program, Limits, Status};
        let feat = Features { cut: false, not: false, output: false, anon: true, alias_heavy: true };
        let (p, family) = gen_any_program(s, feat);
        if rep.decode_only { return CaseResult::Pass; }
        let reference = solve_program(&p, Limits::default());
        if reference.status != Status::Finished { return CaseResult::Discard("reference did not finish / needs an occurs check".into()); }
        let expected: Vec<Vec<Term>> = reference.answers().into_iter().cloned().collect();
        let case = format!("{}", p);
        let mk = |kind: &str, msg: String| CaseResult::Fail(Failure { kind: kind.to_string(), signature: format!("{}:{}", self.id, kind), message: msg, case: case.clone() });
        let r = guarded(crate::props::solver::tick_budget(reference.stats.steps), || -> Result<Vec<Vec<Term>>, String> {
            suiron::start_query();
            let kb = build_kb(&p.clauses);
            let goal = Rc::new(query_goal(&p));
            let sn = suiron::make_base_node(Rc::clone(&goal), &kb);
            let mut got = vec![];
            while let Some(ss) = suiron::next_solution(Rc::clone(&sn)) {
                if let Some(c) = binding_cycle(&ss) { return Err(format!("answer #{}: {}", got.len() + 1, c)); }
                let (args, _, _) = decode_answer(&goal, &ss);
                got.push(args);
                if got.len() > expected.len() + 3 { break; }
            }
            Ok(got)
        });
        match r {
            Ok(Ok(got)) => {
                if got.len() != expected.len() || !got.iter().zip(expected.iter()).all(|(x, y)| variant(x, y)) { return CaseResult::Discard("answers differ from the reference (C01's business)".into()); }
                rep.class(&format!("program:{}", family));
                if !got.is_empty() { rep.class("program-with-answers"); }
                CaseResult::Pass
            }
            Ok(Err(c)) => mk("bindings-form-a-cycle", c),
            Err(e) => mk("engine-failure", format!("{:?}", e)),
        }
    }

    fn gen_history(&self, s: &mut dyn Src) -> Vec<(Term, Term)> {
        let mut cfg = unify_universe();
        match self.aspect {
            UAspect::Mgu | UAspect::Symmetry => { }
            UAspect::Acyclic => { cfg.vars = vec!["$A", "$B", "$C", "$D"]; cfg.anon = false; }
            UAspect::Anon => { }
        }
        if self.aspect == UAspect::Acyclic && chance(s, 1, 8) { return self.gen_long_alias_history(s); }
        let n = 1 + s.draw(if self.aspect == UAspect::Acyclic { 8 } else { 5 }) as usize;
        let mut h = vec![];
        for _ in 0..n {
            let (a, b) = match self.aspect {
                UAspect::Acyclic if chance(s, 3, 5) => (Term::var(pick(s, &cfg.vars)), Term::var(pick(s, &cfg.vars))),
                UAspect::Anon if chance(s, 1, 3) => {
                    // $X = $_  /  $_ = t  at top level
                    if chance(s, 1, 2) { (Term::var(pick(s, &cfg.vars)), Term::Anon) } else { (Term::Anon, gen_term(s, &cfg, 0)) }
                }
                _ => {
                    let a = gen_term(s, &cfg, 0);
                    // bias: the second term is often a perturbed copy of the first, so deep matches happen
                    let b = if chance(s, 2, 5) { perturb(s, &a, &cfg) } else { gen_term(s, &cfg, 0) };
                    (a, b)
                }
            };
            h.push((a, b));
        }
        // C09 is about histories that contain `$_`: put one in by construction instead of discarding
        if self.aspect == UAspect::Anon && !h.iter().any(|(a, b)| a.has_anon() || b.has_anon()) {
            fn inject(t: &Term, s: &mut dyn Src) -> Term {
                match t {
                    Term::Cmp(f, a) if !a.is_empty() && chance(s, 3, 4) => { let i = s.draw(a.len() as u32) as usize; let mut a2 = a.clone(); a2[i] = inject(&a[i], s); Term::Cmp(f.clone(), a2) }
                    Term::List(es, tl) if !es.is_empty() && chance(s, 3, 4) => {
                        if chance(s, 1, 3) { Term::List(es.clone(), Some(Box::new(Term::Anon))) }
                        else { let i = s.draw(es.len() as u32) as usize; let mut e2 = es.clone(); e2[i] = inject(&es[i], s); Term::List(e2, tl.clone()) }
                    }
                    _ => Term::Anon,
                }
            }
            let i = s.draw(h.len() as u32) as usize;
            if chance(s, 1, 2) { h[i].0 = inject(&h[i].0.clone(), s); } else { h[i].1 = inject(&h[i].1.clone(), s); }
        }
        h
    }

    /// Alias chains far longer than the six-variable universe allows: 8-64 variables linked by runs of
    /// `$Vi = $Vi+1` (forwards or backwards, either operand order), random cross links, a few bindings to
    /// terms, and equations between the two ends of a run in either order (the steps that close a cycle
    /// if an "already aliased?" walk gives up early).
    fn gen_long_alias_history(&self, s: &mut dyn Src) -> Vec<(Term, Term)> {
        let n = 8 + s.draw(57) as usize;
        let v = |i: usize| Term::Var(format!("$V{}", i + 1));
        let mut h = vec![];
        let mut pos = 0usize;
        while pos + 1 < n && h.len() < 90 {
            let run = (2 + s.draw(48) as usize).min(n - pos);
            let backwards = chance(s, 1, 3);
            let flip = chance(s, 1, 3);
            let idx: Vec<usize> = if backwards { (pos..pos + run - 1).rev().collect() } else { (pos..pos + run - 1).collect() };
            for i in idx { h.push(if flip { (v(i + 1), v(i)) } else { (v(i), v(i + 1)) }); }
            // the ends of the run, in one or both orders
            match s.draw(4) { 0 => h.push((v(pos + run - 1), v(pos))), 1 => h.push((v(pos), v(pos + run - 1))), 2 => { h.push((v(pos + run - 1), v(pos))); h.push((v(pos), v(pos + run - 1))); } _ => {} }
            if chance(s, 1, 4) { let a = s.draw(n as u32) as usize; let b = s.draw(n as u32) as usize; h.push((v(a), v(b))); }
            if chance(s, 1, 6) { let a = s.draw(n as u32) as usize; h.push((v(a), if chance(s, 1, 2) { Term::atom("a") } else { Term::Cmp("f".into(), vec![v(s.draw(n as u32) as usize)]) })); }
            pos += run - if chance(s, 1, 2) { 1 } else { 0 };
        }
        // finally relate the two ends of everything, both ways
        h.push((v(n - 1), v(0)));
        h.push((v(0), v(n - 1)));
        h
    }

    fn check_history(&self, h: &[(Term, Term)], rep: &mut Report) -> CaseResult {
        if rep.decode_only { return CaseResult::Pass; }
        let has_anon = h.iter().any(|(a, b)| a.has_anon() || b.has_anon());
        if self.aspect == UAspect::Mgu && has_anon { rep.class("history-with-$_ (also C09)"); }
        if self.aspect == UAspect::Anon && !has_anon { return CaseResult::Discard("no $_ in history".into()); }
        let base = match self.run_history(h, false, false, rep) { Ok(o) => o, Err(r) => return r };
        if h.iter().any(|(a, b)| a.has_list() || b.has_list()) && self.aspect != UAspect::Acyclic {
            // the same history over lists built by the documented constructor
            match self.run_history_built(&h[..base.steps.len().min(h.len())], false, false, 1, rep) {
                Ok(o) => { if o.steps != base.steps { return fail(self.id, "constructor-built-lists-differ", format!("parser-shaped lists: {:?}; make_linked_list: {:?}", base.steps, o.steps), h, 0, ""); } rep.class("also with make_linked_list-built lists"); }
                Err(r) => return r,
            }
        }
        if self.aspect != UAspect::Acyclic && h.iter().all(|(a, b)| crate::props::builtins::text_safe(a) && crate::props::builtins::text_safe(b)) {
            // the same history over terms read from their source text (f(a, $_), [x | $T], ...): what is written must unify
            // like what is built
            match self.run_history_built(&h[..base.steps.len().min(h.len())], false, false, 2, rep) {
                Ok(o) => { if o.steps != base.steps { return fail(self.id, "text-built-terms-differ", format!("API-built terms: {:?}; the same terms parsed from text: {:?}", base.steps, o.steps), h, 0, ""); } rep.class("also with terms parsed from source text"); }
                Err(CaseResult::Discard(_)) => {}
                Err(r) => return r,
            }
        }
        if matches!(self.aspect, UAspect::Mgu | UAspect::Anon) && !base.stopped_occurs && !base.steps.is_empty() && fnv(&fmt_hist(h)) % 5 == 0 {
            // the same history as `=` goals of a rule body, each step between two variables that are already bound to the
            // two terms ($A = t, $B = u, $A = $B): the built-in unify predicate must agree with unify()
            let upto = base.steps.iter().position(|x| !*x).map_or(base.steps.len(), |i| i + 1).min(h.len());
            let mut goals = vec![];
            for (i, (a, b)) in h[..upto].iter().enumerate() {
                let (va, vb) = (Term::Var(format!("$Ga{}", i)), Term::Var(format!("$Gb{}", i)));
                goals.push(Goal::Unify(va.clone(), a.clone()));
                goals.push(Goal::Unify(vb.clone(), b.clone()));
                goals.push(Goal::Unify(va, vb));
            }
            let names = hist_names(h);
            let p = Program { clauses: vec![Clause { name: "t".into(), args: names.iter().map(|n| Term::Var(n.clone())).collect(), body: Some(Goal::And(goals)) }],
                              qname: "t".into(), qargs: (0..names.len()).map(|i| Term::Var(format!("$Q{}", i))).collect() };
            let want = if base.steps[..upto].iter().all(|x| *x) { 1 } else { 0 };
            match run_program(&p, 3, 0, 2_000_000) {
                Ok(run) => {
                    if run.answers.len() != want { return fail(self.id, "unify-goal-differs", format!("unify(): {:?}; as `=` goals between bound variables the rule body has {} answer(s), expected {}\n{}", &base.steps[..upto], run.answers.len(), want, p), h, 0, ""); }
                    rep.class("also as = goals between bound variables");
                }
                Err(f) => return fail(self.id, "engine-failure", format!("as = goals: {:?}\n{}", f, p), h, 0, ""),
            }
        }
        if base.stopped_occurs && base.steps.is_empty() { return CaseResult::Discard("first step needs occurs check".into()); }
        if base.stopped_occurs { rep.class("history-cut-short-by-occurs-check"); }
        let compound = h.iter().any(|(a, b)| a.depth() > 0 && b.depth() > 0);
        let deep_event = base.steps.len() >= 2 || compound;
        let fp = fnv(&fmt_hist(h));
        match self.aspect {
            UAspect::Mgu => {
                if deep_event && (compound || base.steps.len() >= 2) { rep.nontrivial(fp); rep.sample(json!({"history": fmt_hist(h), "results": base.steps})); }
                if base.steps.iter().any(|x| !*x) { rep.class("some-step-fails"); }
                if base.steps.iter().all(|x| *x) { rep.class("all-steps-unify"); }
            }
            UAspect::Symmetry => {
                // swapped, renamed, renamed+swapped, and as head/goal pairs
                let usable = base.steps.len();
                let hh = &h[..usable.min(h.len())];
                if hh.is_empty() { return CaseResult::Discard("no usable step".into()); }
                let variants: [(bool, bool); 3] = [(false, true), (true, false), (true, true)];
                for (renamed, swap) in variants {
                    let o = match self.run_history(hh, renamed, swap, rep) { Ok(o) => o, Err(r) => return r };
                    if o.steps != base.steps[..o.steps.len().min(base.steps.len())] || o.steps.len() != base.steps.len() {
                        return fail(self.id, "asymmetric-success", format!("as written: {:?}; {}{}: {:?}", base.steps, if renamed { "renamed " } else { "" }, if swap { "swapped" } else { "" }, o.steps), h, 0, "");
                    }
                    // tuples are over the variables present; compare as variants when same length
                    if !renamed && !variant(&o.final_tuple, &base.final_tuple) {
                        return fail(self.id, "asymmetric-result", format!("as written: {:?}\nswapped: {:?}", base.final_tuple, o.final_tuple), h, 0, "");
                    }
                }
                // head/goal form: p(t) vs p(u)
                let wrapped: Vec<(Term, Term)> = hh.iter().map(|(a, b)| (Term::Cmp("p".into(), vec![a.clone()]), Term::Cmp("p".into(), vec![b.clone()]))).collect();
                for (renamed, swap) in [(false, false), (false, true), (true, false), (true, true)] {
                    let o = match self.run_history(&wrapped, renamed, swap, rep) { Ok(o) => o, Err(r) => return r };
                    if o.steps != base.steps {
                        return fail(self.id, "asymmetric-success", format!("as written: {:?}; as p(..) {}{}: {:?}", base.steps, if renamed { "renamed " } else { "" }, if swap { "swapped" } else { "" }, o.steps), h, 0, "");
                    }
                }
                // head/goal unification as the solver does it: the fact p(t) asked with the query p(u), and the fact p(u)
                // asked with p(t) - clause lookup, renaming apart and head unification included. Both are compared with the
                // reference solver (which makes them agree with each other); arity 2 with a constant first argument as well,
                // since clause selection may look at the arguments.
                {
                    let (a, b) = &hh[0];
                    for (fact, goal) in [(a, b), (b, a)] {
                        for shape in 0..3 {
                            let wide = shape == 1;
                            // shape 2: two complex terms of the same arity give their arguments as the top-level arguments of
                            // fact and query (p(x1, .., xn) asked with p(y1, .., yn)): variables repeated among bare arguments
                            let spread = match (fact, goal) { (Term::Cmp(_, xs), Term::Cmp(_, ys)) if xs.len() == ys.len() && xs.len() >= 2 => Some((xs.clone(), ys.clone())), _ => None };
                            if shape == 2 && spread.is_none() { continue; }
                            let fargs = if shape == 2 { spread.clone().unwrap().0 } else if wide { vec![Term::atom("k"), fact.clone()] } else { vec![fact.clone()] };
                            let qargs = if shape == 2 { spread.clone().unwrap().1 } else if wide { vec![Term::atom("k"), goal.clone()] } else { vec![goal.clone()] };
                            let fargs_len = fargs.len();
                            let mut qv = vec![]; for t in &qargs { t.vars(&mut qv); }
                            // the query's variables get their own names: fact and query never share variables
                            let qargs: Vec<Term> = qargs.iter().map(|t| t.map_vars(&mut |n: &str| Term::Var(format!("$Q{}", n.trim_start_matches('$'))))).collect();
                            let prog = Program { clauses: vec![Clause { name: "p".into(), args: fargs, body: None }, Clause { name: "p".into(), args: vec![Term::atom("zz"); fargs_len], body: None }], qname: "p".into(), qargs };
                            match crate::props::solver::compare_answers_src(self.id, &prog, None, 0) {
                                Ok(_) => { rep.class(if shape == 2 { "head/goal pair through the knowledge base, arguments spread over p/n" } else { "head/goal pair through the knowledge base" }); }
                                Err(CaseResult::Discard(_)) => {}
                                Err(r) => return r,
                            }
                        }
                    }
                }
                let list_l = h.iter().any(|(a, _)| a.has_list());
                let list_r = h.iter().any(|(_, b)| b.has_list());
                if list_l { rep.class("list-on-left"); }
                if list_r { rep.class("list-on-right"); }
                if h.iter().any(|(a, _)| a.has_empty_list()) { rep.class("literal-[]-on-left"); }
                if h.iter().any(|(_, b)| b.has_empty_list()) { rep.class("literal-[]-on-right"); }
                if h.iter().any(|(a, b)| matches!((a, b), (Term::List(_, Some(_)), Term::List(_, Some(_))))) { rep.class("tail-variable-on-both-sides"); }
                if compound { rep.nontrivial(fp); rep.sample(json!({"history": fmt_hist(h), "results": base.steps})); }
            }
            UAspect::Acyclic => {
                // non-trivial: some step relates two variables that are already transitively aliased
                let mut s = Subst::new();
                let mut env = HashMap::new();
                for n in hist_names(h) { let v = s.fresh(); env.insert(n, v); }
                let mut hit = false;
                for (a, b) in h.iter().take(base.steps.len()) {
                    let ra = instantiate(a, &mut env, &mut s);
                    let rb = instantiate(b, &mut env, &mut s);
                    if let (Term::Var(_), Term::Var(_)) = (a, b) {
                        if let (RT::Var(x), RT::Var(y)) = (s.walk(&ra), s.walk(&rb)) { if x == y && a != b { hit = true; } }
                    }
                    let m = s.mark();
                    if !s.unify(&ra, &rb) { s.undo(m); }
                }
                if h.len() > 10 { rep.class("long-alias-chain-history"); }
                if hit { rep.class("re-unifies-aliased-variables"); rep.nontrivial(fp); rep.sample(json!({"history": fmt_hist(h)})); }
                // also the swapped order of every step
                if let Err(r) = self.run_history(&h[..base.steps.len()], false, true, rep) { return r; }
            }
            UAspect::Anon => {
                for (a, b) in h { for t in [a, b] {
                    match t { Term::Anon => rep.class("$_ at top level"), Term::List(_, Some(x)) if **x == Term::Anon => rep.class("$_ as list tail"), _ => {} }
                    if let Term::Cmp(_, args) = t { if args.contains(&Term::Anon) { rep.class("$_ as argument"); } }
                    if let Term::List(es, _) = t { if es.contains(&Term::Anon) { rep.class("$_ as list element"); } }
                } }
                let follow = h.windows(2).any(|w| matches!((&w[0].0, &w[0].1), (Term::Var(_), Term::Anon)) );
                if follow { rep.class("$X = $_ followed by more equations"); }
                rep.nontrivial(fp);
                rep.sample(json!({"history": fmt_hist(h), "results": base.steps}));
                if let Err(r) = self.run_history(&h[..base.steps.len()], false, true, rep) { return r; }
            }
        }
        CaseResult::Pass
    }
}

/// A structurally similar term: some leaves replaced.
fn perturb(s: &mut dyn Src, t: &Term, cfg: &TermCfg) -> Term {
    match t {
        Term::Cmp(f, a) => Term::Cmp(f.clone(), a.iter().map(|x| if chance(s, 1, 3) { gen_term(s, cfg, 2) } else { perturb(s, x, cfg) }).collect()),
        Term::List(es, tail) => {
            let mut es2: Vec<Term> = es.iter().map(|x| if chance(s, 1, 3) { gen_term(s, cfg, 2) } else { perturb(s, x, cfg) }).collect();
            let mut tail2 = tail.clone();
            match s.draw(5) {
                1 if !es2.is_empty() => { es2.pop(); }
                2 => { es2.push(gen_term(s, cfg, 2)); }
                3 if !es2.is_empty() => { let k = 1 + s.draw(es2.len() as u32) as usize; es2.truncate(k); tail2 = Some(Box::new(Term::var(pick(s, &cfg.vars)))); }
                4 => { tail2 = None; }
                _ => {}
            }
            if es2.is_empty() { tail2 = None; }
            Term::List(es2, tail2)
        }
        leaf => if chance(s, 1, 3) { gen_term(s, cfg, 3) } else { leaf.clone() },
    }
}

// ------------------------------------------------------------------ exhaustive pairs

fn small_term(s: &mut dyn Src, depth: u32) -> Term {
    // two variables, two constants, depth <= 2
    let n = if depth >= 2 { 5 } else { 10 };
    match s.draw(n) {
        0 => Term::atom("a"),
        1 => Term::atom("b"),
        2 => Term::var("$A"),
        3 => Term::var("$B"),
        4 => Term::Anon,
        5 => Term::List(vec![], None),
        6 => Term::Cmp("f".into(), vec![small_term(s, depth + 1)]),
        7 => Term::List(vec![small_term(s, depth + 1)], None),
        8 => Term::List(vec![small_term(s, depth + 1)], Some(Box::new(match s.draw(3) { 0 => Term::var("$A"), 1 => Term::var("$B"), _ => Term::Anon }))),
        _ => Term::Cmp("g".into(), vec![small_term(s, depth + 1), small_term(s, depth + 1)]),
    }
}

const PRIORS: &[(&str, &str)] = &[
    ("$A", "a"), ("$A", "$B"), ("$B", "$A"), ("$A", "[]"), ("$A", "[a]"), ("$A", "[a | $B]"), ("$B", "f($A)"),
    ("$A", "f($_)"), ("$A", "$_"), ("$B", "[$A | $_]"), ("f($A, $B)", "f($B, a)"), ("[$A | $B]", "[a, b]"),
];

impl Property for UnifyProp {
    fn id(&self) -> &'static str { self.id }
    fn max_len(&self) -> usize { 160 }
    fn budget(&self) -> (u64, u64) { match self.aspect { UAspect::Symmetry => (30_000, 200_000), UAspect::Acyclic => (40_000, 400_000), _ => (80_000, 500_000) } }

    fn check(&self, src: &mut dyn Src, rep: &mut Report) -> CaseResult {
        // C08 also quantifies over programs that alias variables through rule heads: one case in five
        if self.aspect == UAspect::Acyclic && chance(src, 1, 5) { return self.check_alias_program(src, rep); }
        let h = self.gen_history(src);
        self.check_history(&h, rep)
    }

    fn families(&self) -> Vec<Family> {
        let me = UnifyProp { id: self.id, aspect: self.aspect };
        let me2 = UnifyProp { id: self.id, aspect: self.aspect };
        match self.aspect {
            UAspect::Mgu | UAspect::Symmetry => vec![
                Family { name: "pairs-empty-prior", describe: "all ordered pairs of terms of depth <= 2 over {a, b, $A, $B, $_, [], f/1, g/2, [t], [t | v]} (first level 10 alternatives, second level 10, third level 5), empty prior substitution",
                    quick_cap: Some(40_000),
                    check: Box::new(move |s, rep| { let a = small_term(s, 1); let b = small_term(s, 1); me.check_history(&[(a, b)], rep) }) },
                Family { name: "pairs-one-prior", describe: "the same pairs (depth <= 1 below the top) after one earlier equation from a list of 12",
                    quick_cap: Some(20_000),
                    check: Box::new(move |s, rep| {
                        let (l, r) = PRIORS[s.draw(PRIORS.len() as u32) as usize];
                        let prior = (crate::ast_parse::parse_term_ast(l).unwrap(), crate::ast_parse::parse_term_ast(r).unwrap());
                        let a = small_term(s, 1); let b = small_term(s, 1);
                        me2.check_history(&[prior, (a, b)], rep)
                    }) },
            ],
            UAspect::Acyclic => vec![
                Family { name: "alias-histories-3vars", describe: "all histories of 1-4 equations between the variables $A,$B,$C (9 ordered pairs per step) followed by one of {none, $A = a, $B = f($C)}",
                    quick_cap: None,
                    check: Box::new(move |s, rep| {
                        let vs = ["$A", "$B", "$C"];
                        let n = 1 + s.draw(4);
                        let mut h = vec![];
                        for _ in 0..n { h.push((Term::var(vs[s.draw(3) as usize]), Term::var(vs[s.draw(3) as usize]))); }
                        match s.draw(3) { 1 => h.push((Term::var("$A"), Term::atom("a"))), 2 => h.push((Term::var("$B"), Term::Cmp("f".into(), vec![Term::var("$C")]))), _ => {} }
                        me.check_history(&h, rep)
                    }) },
            ],
            UAspect::Anon => vec![
                Family { name: "anon-pairs", describe: "all pairs (x = $_ | $_ = x | x = y with $_ inside) over the small universe followed by one of 4 follow-up equations on $A",
                    quick_cap: Some(30_000),
                    check: Box::new(move |s, rep| {
                        let a = small_term(s, 1); let b = small_term(s, 1);
                        let follow = match s.draw(4) { 0 => None, 1 => Some((Term::var("$A"), Term::atom("a"))), 2 => Some((Term::var("$A"), Term::atom("b"))), _ => Some((Term::var("$B"), Term::var("$A"))) };
                        let mut h = vec![(a, b)];
                        if let Some(f) = follow { h.push(f); }
                        me.check_history(&h, rep)
                    }) },
            ],
        }
    }

    fn fixed(&self, rep: &mut Report) -> Vec<(String, CaseResult)> {
        let p = |s: &str| crate::ast_parse::parse_term_ast(s).unwrap();
        let cases: Vec<(&str, Vec<(&str, &str)>)> = vec![
            ("alias-both-orders", vec![("$A", "$B"), ("$B", "$A")]),
            ("alias-chain", vec![("$A", "$B"), ("$B", "$C"), ("$C", "$A"), ("$A", "a")]),
            ("anon-then-const", vec![("$A", "$_"), ("$A", "a"), ("$A", "b")]),
            ("empty-vs-pattern", vec![("[]", "[$A | $B]")]),
            ("pattern-vs-empty", vec![("[$A | $B]", "[]")]),
            ("tail-binds-empty", vec![("[a, b]", "[a, b | $A]")]),
            ("tail-binds-empty-rev", vec![("[a, b | $A]", "[a, b]")]),
            ("complex-all-anon-keeps-bindings", vec![("$A", "a"), ("f($_)", "f(b)"), ("g($_, b)", "g(a, $_)")]),
            ("nested-anon", vec![("g($A, f($_))", "g(a, f(b))")]),
            ("float-int-distinct", vec![("$A", "1"), ("$A", "1.0")]),
        ];
        let mut out = vec![];
        for (name, eqs) in cases {
            let h: Vec<(Term, Term)> = eqs.iter().map(|(a, b)| (p(a), p(b))).collect();
            if self.aspect == UAspect::Anon && !h.iter().any(|(a, b)| a.has_anon() || b.has_anon()) { continue; }
            if self.aspect == UAspect::Acyclic && h.iter().any(|(a, b)| a.has_anon() || b.has_anon()) { continue; }
            out.push((name.to_string(), self.check_history(&h, rep)));
        }
        out
    }

    fn rule(&self) -> String {
        let common = "Histories of 1-5 equations over a bounded universe (variables $A..$F with ids 1-6, atoms a/b/c, ints 0/1/-1, floats 0.5/1.0/-0.0/0.0, $_, f/1 f/2 g/2 h/0, lists of 0-3 elements with no/variable/$_ tail, depth <= 3); each step runs on the substitution the engine produced for the earlier steps; second terms are often perturbed copies of the first; every history is also run over lists built by make_linked_list and over terms read back from their source text by parse_term";
        match self.aspect {
            UAspect::Mgu => format!("{}. Oracle: reference Robinson unifier step by step: same success; joint resolved tuple of all variables is a variant of the reference's; earlier bindings kept; both sides identical when resolved; engine accessors agree with the harness walker; one history in five also as `=` goals of a rule body between variables already bound to the two terms (the built-in unify predicate). Non-trivial = both terms compound or a non-empty prior substitution; distinct by history text.", common),
            UAspect::Symmetry => format!("{}. Oracle (metamorphic): each history is also run with sides swapped, after recreate_variables (shared VarMap), both, and wrapped as p(t) = p(u), and as fact/query pairs through the knowledge base (p(t) asked with p(u), arity 1, 2 and arguments spread over p/n); success per step and final resolved tuple must agree. Non-trivial = a pair of compound terms; distinct by history text.", common),
            UAspect::Acyclic => format!("{} restricted to 4 variables with 60% variable/variable equations, 1-8 steps. Oracle (invariant): after every successful step no binding chain returns to its start (own walker + bind hook), already-equal terms add no binding, both orders; one case in five is a generated alias-heavy program (facts with variables nested in structures, recursion) whose substitution set is searched for a binding cycle after every answer, before it is resolved. Non-trivial = a step unifies two distinct variables that are already transitively aliased; distinct by history text.", common),
            UAspect::Anon => format!("{} keeping only histories that contain $_ (one third of steps are `$X = $_` or `$_ = t`). Oracle: reference unifier with the wildcard rule (matches anything, never binds, a variable unified with bare $_ stays unbound) + binding vector unchanged by bare-$_ steps. Non-trivial = every kept history (contains $_); distinct by history text.", common),
        }
    }

    fn assumptions(&self) -> Vec<String> {
        vec![
            "variable ids are never 0 in direct unify calls (documented panic)".into(),
            "no function terms (C13's business); no NaN".into(),
            "a step at which the reference would bind a variable to a term containing it ends the history (occurs check is outside the claim)".into(),
            "Int(1) and Float(1.0) are different constants for unification; floats compare with ==".into(),
        ]
    }
}
