//! CLI:  sverif worker <ID> [--thorough] [--seed N] [--worker I] [--workers N] [--cases N] [--strict]
//!       sverif replay <file> 
//!       sverif show <ID> <family> <c1,c2,...>      (print the decoded case of a choice sequence)

use sverif::driver::*;
use sverif::report::*;
use sverif::{capture, props};
use serde_json::{json, Value};

fn arg_val(args: &[String], name: &str) -> Option<String> {
    args.iter().position(|a| a == name).and_then(|i| args.get(i + 1).cloned())
}

fn real_main() -> i32 {
    let args: Vec<String> = std::env::args().collect();
    if args.len() < 3 { eprintln!("usage: sverif worker|replay ..."); return 3; }
    let verif = std::env::var("VERIF_DIR").unwrap_or_else(|_| "/verif".to_string());
    match args[1].as_str() {
        "worker" => {
            let id = &args[2];
            let prop = match props::by_id(id) { Some(p) => p, None => { eprintln!("unknown property {}", id); return 3; } };
            let cfg = WorkerCfg {
                tier_thorough: args.iter().any(|a| a == "--thorough"),
                seed: arg_val(&args, "--seed").and_then(|s| s.parse().ok()).unwrap_or(0),
                worker: arg_val(&args, "--worker").and_then(|s| s.parse().ok()).unwrap_or(0),
                workers: arg_val(&args, "--workers").and_then(|s| s.parse().ok()).unwrap_or(1),
                cases_override: arg_val(&args, "--cases").and_then(|s| s.parse().ok()),
                known_path: format!("{}/known_findings.json", verif),
                corpus_dir: format!("{}/corpus", verif),
                strict: args.iter().any(|a| a == "--strict"),
            };
            capture::start();
            if id == "C18" { set_cpu_limit("C18", 20); }
            start_watchdog(arg_val(&args, "--watchdog").and_then(|s| s.parse().ok()).unwrap_or(120));
            let out = run_worker(prop.as_ref(), &cfg);
            capture::real_stdout(&format!("{}\n", out));
            if out.get("failure").is_some() { 1 } else { 0 }
        }
        "replay" => {
            let txt = match std::fs::read_to_string(&args[2]) { Ok(t) => t, Err(e) => { eprintln!("cannot read {}: {}", args[2], e); return 3; } };
            let v: Value = match serde_json::from_str(&txt) { Ok(v) => v, Err(e) => { eprintln!("bad replay file: {}", e); return 3; } };
            let id = v["property"].as_str().unwrap_or("").to_string();
            let prop = match props::by_id(&id) { Some(p) => p, None => { eprintln!("unknown property {}", id); return 3; } };
            let fam = v["family"].as_str().unwrap_or("random16").to_string();
            let choices: Vec<u32> = v["choices"].as_array().map(|a| a.iter().map(|x| x.as_u64().unwrap_or(0) as u32).collect()).unwrap_or_default();
            capture::start();
            if id == "C18" { set_cpu_limit("C18", 20); }
            start_watchdog(120);
            note_case(&format!("choices={:?}", choices));
            let mut rep = Report::new();
            let r = if fam == "bytes" || fam == "text" {
                let bytes: Vec<u8> = v["bytes"].as_array().map(|a| a.iter().map(|x| x.as_u64().unwrap_or(0) as u8).collect()).unwrap_or_default();
                sverif::fuzzrt::replay_bytes(prop.as_ref(), &fam, &bytes, &mut rep)
            } else { replay_choices(prop.as_ref(), &fam, &choices, &mut rep) };
            match r {
                CaseResult::Pass => { capture::real_stdout(&format!("{}\n", json!({"replay": "pass", "property": id}))); 0 }
                CaseResult::Discard(w) => { capture::real_stdout(&format!("{}\n", json!({"replay": "discard", "why": w, "property": id}))); 0 }
                CaseResult::Fail(f) => {
                    capture::real_stdout(&format!("{}\n", json!({"replay": "fail", "property": id, "kind": f.kind, "signature": f.signature, "message": f.message, "case": f.case})));
                    capture::real_stdout(&format!("VIOLATION property={} replay={}\n", id, args[2]));
                    1
                }
            }
        }
        "timerleak" => {
            // diagnostic: how often does a cancelled solve_all timer still fire later?
            let n: usize = args[2].parse().unwrap_or(1000);
            let p = sverif::ast_parse::parse_program("q(1). q(2). ?- q($X).").unwrap();
            let mut leaks = 0;
            let rounds = 20;
            for _ in 0..rounds {
                for _ in 0..n { let _ = sverif::engine::run_solve_all(&p, u64::MAX); }
                suiron::start_query();
                std::thread::sleep(std::time::Duration::from_millis(1300));
                if suiron::query_stopped() { leaks += 1; }
            }
            println!("{} of {} rounds (each {} solve_all calls) saw a stray stop_query()", leaks, rounds, n);
            0
        }
        "ubcorpus" => {
            // sverif ubcorpus <out file> <seed> <n without cut> <n with cut>
            let seed: u64 = args.get(3).and_then(|s| s.parse().ok()).unwrap_or(0);
            let n0: usize = args.get(4).and_then(|s| s.parse().ok()).unwrap_or(10);
            let n1: usize = args.get(5).and_then(|s| s.parse().ok()).unwrap_or(10);
            let mut lines = vec![];
            let native = !args.iter().any(|a| a == "--no-native");
            for e in sverif::ub::make_corpus(seed, n0, false, native) { lines.push(e.to_string()); }
            for e in sverif::ub::make_corpus(seed.wrapping_add(1), n1, true, native) { lines.push(e.to_string()); }
            let n2: usize = args.get(6).and_then(|s| s.parse().ok()).unwrap_or(0);
            for e in sverif::ub::make_cut_under_corpus(seed.wrapping_add(2), n2, native) { lines.push(e.to_string()); }
            let n3: usize = args.get(7).and_then(|s| s.parse().ok()).unwrap_or(0);
            for e in sverif::ub::make_list_builtin_corpus(seed.wrapping_add(3), n3, native) { lines.push(e.to_string()); }
            if std::fs::write(&args[2], lines.join("\n") + "\n").is_err() { eprintln!("cannot write {}", args[2]); return 3; }
            println!("{}", lines.len());
            0
        }
        "ubrun" => sverif::ub::replay_file(&args[2]),
        "prog" => {
            // debugging aid: a program in the harness's own text form, solved by reference and engine
            let txt = std::fs::read_to_string(&args[2]).unwrap_or_default();
            match sverif::ast_parse::parse_program(&txt) {
                Ok(p) => {
                    let r = sverif::refsolve::solve_program(&p, sverif::refsolve::Limits::default());
                    println!("reference: {:?} {} answers", r.status, r.answers().len());
                    match sverif::engine::run_program(&p, 50, 0, 50_000_000) { Ok(run) => println!("engine: {} answers {:?}", run.answers.len(), run.answers.iter().map(|a| a.display.clone()).collect::<Vec<_>>()), Err(e) => println!("engine failed: {:?}", e) }
                    0
                }
                Err(e) => { eprintln!("parse error: {:?}", e); 3 }
            }
        }
        _ => { eprintln!("unknown command"); 3 }
    }
}

fn main() {
    // under Miri (and for ubrun generally) stay on the main thread: small cases, no deep recursion
    let a: Vec<String> = std::env::args().collect();
    if a.get(1).map_or(false, |c| c == "ubrun") { std::process::exit(real_main()); }
    // deep recursion in engine and reference: run on a thread with a very large stack
    let h = std::thread::Builder::new().stack_size(2usize << 30).spawn(real_main).expect("spawn");
    let code = h.join().unwrap_or(3);
    std::process::exit(code);
}
