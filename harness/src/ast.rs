//! The harness's own term / goal / program language. Nothing here is a Suiron type.

use std::fmt;

#[derive(Clone, Debug, PartialEq)]
pub enum Term {
    Atom(String),
    Int(i64),
    Float(f64),
    /// source-level variable, name includes the `$`
    Var(String),
    Anon,
    /// complex term: functor, arguments (arity may be 0)
    Cmp(String, Vec<Term>),
    /// list: elements, optional tail (after normalisation the tail is never a List)
    List(Vec<Term>, Option<Box<Term>>),
    /// built-in function term: add / subtract / multiply / divide / join
    Func(String, Vec<Term>),
}

#[derive(Clone, Copy, Debug, PartialEq, Eq, Hash, PartialOrd, Ord)]
pub enum CmpOp { Eq, Lt, Le, Gt, Ge }

impl CmpOp {
    pub const ALL: [CmpOp; 5] = [CmpOp::Eq, CmpOp::Lt, CmpOp::Le, CmpOp::Gt, CmpOp::Ge];
    pub fn functor(self) -> &'static str {
        match self {
            CmpOp::Eq => "equal", CmpOp::Lt => "less_than", CmpOp::Le => "less_than_or_equal",
            CmpOp::Gt => "greater_than", CmpOp::Ge => "greater_than_or_equal",
        }
    }
    pub fn infix(self) -> &'static str {
        match self { CmpOp::Eq => "==", CmpOp::Lt => "<", CmpOp::Le => "<=", CmpOp::Gt => ">", CmpOp::Ge => ">=" }
    }
}

#[derive(Clone, Debug, PartialEq)]
pub enum Goal {
    Call(String, Vec<Term>),
    And(Vec<Goal>),
    Or(Vec<Goal>),
    Not(Box<Goal>),
    Time(Box<Goal>),
    Unify(Term, Term),
    Compare(CmpOp, Term, Term),
    /// append / count / include / exclude / functor / print / print_list
    BuiltIn(String, Vec<Term>),
    Nl,
    Cut,
    Fail,
}

#[derive(Clone, Debug, PartialEq)]
pub struct Clause {
    pub name: String,
    pub args: Vec<Term>,
    pub body: Option<Goal>,
}

#[derive(Clone, Debug, PartialEq)]
pub struct Program {
    pub clauses: Vec<Clause>,
    pub qname: String,
    pub qargs: Vec<Term>,
}

impl Term {
    pub fn atom(s: &str) -> Term { Term::Atom(s.to_string()) }
    pub fn var(s: &str) -> Term { Term::Var(s.to_string()) }
    pub fn list(v: Vec<Term>) -> Term { Term::List(v, None) }

    /// Normal form: a list whose tail is itself a list is flattened.
    pub fn normalise(self) -> Term {
        match self {
            Term::Cmp(f, a) => Term::Cmp(f, a.into_iter().map(|t| t.normalise()).collect()),
            Term::Func(f, a) => Term::Func(f, a.into_iter().map(|t| t.normalise()).collect()),
            Term::List(es, tail) => {
                let mut es: Vec<Term> = es.into_iter().map(|t| t.normalise()).collect();
                match tail {
                    None => Term::List(es, None),
                    Some(t) => match t.normalise() {
                        Term::List(more, t2) => { es.extend(more); Term::List(es, t2) }
                        other => Term::List(es, Some(Box::new(other))),
                    },
                }
            }
            t => t,
        }
    }

    pub fn vars(&self, out: &mut Vec<String>) {
        match self {
            Term::Var(n) => { if !out.contains(n) { out.push(n.clone()); } }
            Term::Cmp(_, a) | Term::Func(_, a) => for t in a { t.vars(out); },
            Term::List(es, tail) => {
                for t in es { t.vars(out); }
                if let Some(t) = tail { t.vars(out); }
            }
            _ => {}
        }
    }

    pub fn has_anon(&self) -> bool {
        match self {
            Term::Anon => true,
            Term::Cmp(_, a) | Term::Func(_, a) => a.iter().any(|t| t.has_anon()),
            Term::List(es, tail) => es.iter().any(|t| t.has_anon()) || tail.as_ref().map_or(false, |t| t.has_anon()),
            _ => false,
        }
    }

    pub fn has_list(&self) -> bool {
        match self {
            Term::List(..) => true,
            Term::Cmp(_, a) | Term::Func(_, a) => a.iter().any(|t| t.has_list()),
            _ => false,
        }
    }

    pub fn has_empty_list(&self) -> bool {
        match self {
            Term::List(es, tail) => (es.is_empty() && tail.is_none()) || es.iter().any(|t| t.has_empty_list()),
            Term::Cmp(_, a) | Term::Func(_, a) => a.iter().any(|t| t.has_empty_list()),
            _ => false,
        }
    }

    pub fn is_ground(&self) -> bool {
        match self {
            Term::Var(_) | Term::Anon => false,
            Term::Cmp(_, a) | Term::Func(_, a) => a.iter().all(|t| t.is_ground()),
            Term::List(es, tail) => es.iter().all(|t| t.is_ground()) && tail.as_ref().map_or(true, |t| t.is_ground()),
            _ => true,
        }
    }

    pub fn depth(&self) -> usize {
        match self {
            Term::Cmp(_, a) | Term::Func(_, a) => 1 + a.iter().map(|t| t.depth()).max().unwrap_or(0),
            Term::List(es, tail) => 1 + es.iter().map(|t| t.depth()).chain(tail.iter().map(|t| t.depth())).max().unwrap_or(0),
            _ => 0,
        }
    }

    pub fn map_vars(&self, f: &mut dyn FnMut(&str) -> Term) -> Term {
        match self {
            Term::Var(n) => f(n),
            Term::Cmp(g, a) => Term::Cmp(g.clone(), a.iter().map(|t| t.map_vars(f)).collect()),
            Term::Func(g, a) => Term::Func(g.clone(), a.iter().map(|t| t.map_vars(f)).collect()),
            Term::List(es, tail) => Term::List(es.iter().map(|t| t.map_vars(f)).collect(),
                                               tail.as_ref().map(|t| Box::new(t.map_vars(f)))),
            t => t.clone(),
        }
    }
}

impl Goal {
    pub fn vars(&self, out: &mut Vec<String>) {
        match self {
            Goal::Call(_, a) | Goal::BuiltIn(_, a) => for t in a { t.vars(out); },
            Goal::And(gs) | Goal::Or(gs) => for g in gs { g.vars(out); },
            Goal::Not(g) | Goal::Time(g) => g.vars(out),
            Goal::Unify(a, b) | Goal::Compare(_, a, b) => { a.vars(out); b.vars(out); }
            Goal::Nl | Goal::Cut | Goal::Fail => {}
        }
    }

    pub fn map_vars(&self, f: &mut dyn FnMut(&str) -> Term) -> Goal {
        match self {
            Goal::Call(n, a) => Goal::Call(n.clone(), a.iter().map(|t| t.map_vars(f)).collect()),
            Goal::BuiltIn(n, a) => Goal::BuiltIn(n.clone(), a.iter().map(|t| t.map_vars(f)).collect()),
            Goal::And(gs) => Goal::And(gs.iter().map(|g| g.map_vars(f)).collect()),
            Goal::Or(gs) => Goal::Or(gs.iter().map(|g| g.map_vars(f)).collect()),
            Goal::Not(g) => Goal::Not(Box::new(g.map_vars(f))),
            Goal::Time(g) => Goal::Time(Box::new(g.map_vars(f))),
            Goal::Unify(a, b) => Goal::Unify(a.map_vars(f), b.map_vars(f)),
            Goal::Compare(o, a, b) => Goal::Compare(*o, a.map_vars(f), b.map_vars(f)),
            Goal::Nl => Goal::Nl, Goal::Cut => Goal::Cut, Goal::Fail => Goal::Fail,
        }
    }

    pub fn any(&self, p: &dyn Fn(&Goal) -> bool) -> bool {
        if p(self) { return true; }
        match self {
            Goal::And(gs) | Goal::Or(gs) => gs.iter().any(|g| g.any(p)),
            Goal::Not(g) | Goal::Time(g) => g.any(p),
            _ => false,
        }
    }

    pub fn terms(&self, out: &mut Vec<Term>) {
        match self {
            Goal::Call(_, a) | Goal::BuiltIn(_, a) => out.extend(a.iter().cloned()),
            Goal::And(gs) | Goal::Or(gs) => for g in gs { g.terms(out); },
            Goal::Not(g) | Goal::Time(g) => g.terms(out),
            Goal::Unify(a, b) | Goal::Compare(_, a, b) => { out.push(a.clone()); out.push(b.clone()); }
            _ => {}
        }
    }
}

impl Clause {
    pub fn vars(&self) -> Vec<String> {
        let mut v = vec![];
        for t in &self.args { t.vars(&mut v); }
        if let Some(b) = &self.body { b.vars(&mut v); }
        v
    }
    pub fn key(&self) -> String { format!("{}/{}", self.name, self.args.len()) }
}

// ----------------------------------------------------------------------------
// Display = the harness's *canonical* rendering (see render.rs for variants).

thread_local! { static ENGINE_FLOATS: std::cell::Cell<bool> = std::cell::Cell::new(false); }

/// Floats are shown with a decimal point (`1.0`) in case descriptions; the print oracle
/// needs Rust's `{}` formatting (`1`), which is what "the value's text" means for the engine.
pub fn fmt_float(f: f64) -> String {
    if ENGINE_FLOATS.with(|c| c.get()) { format!("{}", f) } else { format!("{:?}", f) }
}

impl Term {
    /// Text of a value as `print` shows it (floats in `{}` formatting).
    pub fn value_text(&self) -> String {
        ENGINE_FLOATS.with(|c| c.set(true));
        let s = format!("{}", self);
        ENGINE_FLOATS.with(|c| c.set(false));
        s
    }
}

impl fmt::Display for Term {
    fn fmt(&self, f: &mut fmt::Formatter) -> fmt::Result {
        match self {
            Term::Atom(s) => write!(f, "{}", s),
            Term::Int(i) => write!(f, "{}", i),
            Term::Float(x) => write!(f, "{}", fmt_float(*x)),
            Term::Var(n) => write!(f, "{}", n),
            Term::Anon => write!(f, "$_"),
            Term::Cmp(g, a) | Term::Func(g, a) => {
                write!(f, "{}(", g)?;
                for (i, t) in a.iter().enumerate() {
                    if i > 0 { write!(f, ", ")?; }
                    write!(f, "{}", t)?;
                }
                write!(f, ")")
            }
            Term::List(es, tail) => {
                write!(f, "[")?;
                for (i, t) in es.iter().enumerate() {
                    if i > 0 { write!(f, ", ")?; }
                    write!(f, "{}", t)?;
                }
                if let Some(t) = tail {
                    if es.is_empty() { write!(f, "| {}", t)?; } else { write!(f, " | {}", t)?; }
                }
                write!(f, "]")
            }
        }
    }
}

fn fmt_args(f: &mut fmt::Formatter, name: &str, a: &[Term]) -> fmt::Result {
    write!(f, "{}(", name)?;
    for (i, t) in a.iter().enumerate() {
        if i > 0 { write!(f, ", ")?; }
        write!(f, "{}", t)?;
    }
    write!(f, ")")
}

impl fmt::Display for Goal {
    fn fmt(&self, f: &mut fmt::Formatter) -> fmt::Result {
        match self {
            Goal::Call(n, a) | Goal::BuiltIn(n, a) => fmt_args(f, n, a),
            Goal::And(gs) | Goal::Or(gs) => {
                let sep = if matches!(self, Goal::And(_)) { ", " } else { "; " };
                for (i, g) in gs.iter().enumerate() {
                    if i > 0 { write!(f, "{}", sep)?; }
                    match g {
                        Goal::And(_) | Goal::Or(_) => write!(f, "({})", g)?,
                        _ => write!(f, "{}", g)?,
                    }
                }
                Ok(())
            }
            Goal::Not(g) => write!(f, "not({})", g),
            Goal::Time(g) => write!(f, "time({})", g),
            Goal::Unify(a, b) => write!(f, "{} = {}", a, b),
            Goal::Compare(o, a, b) => write!(f, "{}({}, {})", o.functor(), a, b),
            Goal::Nl => write!(f, "nl"),
            Goal::Cut => write!(f, "!"),
            Goal::Fail => write!(f, "fail"),
        }
    }
}

impl fmt::Display for Clause {
    fn fmt(&self, f: &mut fmt::Formatter) -> fmt::Result {
        fmt_args(f, &self.name, &self.args)?;
        match &self.body {
            None => write!(f, "."),
            Some(b) => write!(f, " :- {}.", b),
        }
    }
}

impl fmt::Display for Program {
    fn fmt(&self, f: &mut fmt::Formatter) -> fmt::Result {
        for c in &self.clauses { writeln!(f, "{}", c)?; }
        write!(f, "?- ")?;
        fmt_args(f, &self.qname, &self.qargs)?;
        write!(f, ".")
    }
}
