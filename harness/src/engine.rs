//! Running the real engine under observation: panic capture, bind hook (cycle
//! detection at creation), tick hook (deterministic step budget), stdout segments.

use crate::ast::*;
use crate::bridge::*;
use crate::capture;
use std::cell::{Cell, RefCell};
use std::panic::{self, AssertUnwindSafe};
use std::rc::Rc;
use suiron::Unifiable as U;

#[derive(Clone, Debug, PartialEq)]
pub enum EngineFail {
    /// ordinary Rust panic inside the engine: message, file:line
    Panic { msg: String, loc: String },
    /// a binding cycle was created (variable chain or through a structure)
    Cycle { detail: String },
    /// more than the allowed number of next_solution entries
    TickLimit { limit: u64 },
}

impl EngineFail {
    pub fn signature(&self) -> String {
        match self {
            EngineFail::Panic { msg, loc } => format!("panic@{}:{}", loc, short(msg)),
            EngineFail::Cycle { .. } => "binding-cycle".to_string(),
            EngineFail::TickLimit { .. } => "no-result(step budget)".to_string(),
        }
    }
}

fn short(m: &str) -> String { m.chars().take(60).collect() }

struct Marker(EngineFail);

thread_local! {
    static TICKS: Cell<u64> = Cell::new(0);
    static TICK_LIMIT: Cell<u64> = Cell::new(u64::MAX);
    /// tick number at which the harness plays the timer thread: it calls the public stop_query(),
    /// which is all the timer callback does (0 = never)
    static STOP_AT: Cell<u64> = Cell::new(0);
    static STOP_DONE: Cell<bool> = Cell::new(false);
    static LAST_PANIC: RefCell<Option<(String, String)>> = RefCell::new(None);
    static HOOK_SET: Cell<bool> = Cell::new(false);
    static BINDS: Cell<u64> = Cell::new(0);
    static IN_GUARD: Cell<bool> = Cell::new(false);
}

fn tick_hook() {
    let t = TICKS.with(|c| { let v = c.get() + 1; c.set(v); v });
    let lim = TICK_LIMIT.with(|c| c.get());
    if t == STOP_AT.with(|c| c.get()) { suiron::stop_query(); STOP_DONE.with(|c| c.set(true)); }
    if t > lim {
        panic::panic_any(Marker(EngineFail::TickLimit { limit: lim }));
    }
}

/// Is variable `id` reachable from its own binding? (alias chains and structures)
fn reaches(ss: &suiron::SubstitutionSet, t: &U, id: usize, fuel: &mut usize) -> bool {
    if *fuel == 0 { return false; }
    *fuel -= 1;
    match t {
        U::LogicVar { id: j, .. } => {
            if *j == id { return true; }
            if *j < ss.len() { if let Some(b) = &ss[*j] { return reaches(ss, b, id, fuel); } }
            false
        }
        U::SComplex(v) => v.iter().any(|x| reaches(ss, x, id, fuel)),
        U::SFunction { terms, .. } => terms.iter().any(|x| reaches(ss, x, id, fuel)),
        U::SLinkedList { term, next, .. } => reaches(ss, term, id, fuel) || reaches(ss, next, id, fuel),
        _ => false,
    }
}

fn bind_hook(ss: &suiron::SubstitutionSet, id: usize) {
    BINDS.with(|c| c.set(c.get() + 1));
    if id < ss.len() {
        if let Some(b) = &ss[id] {
            let mut fuel = 20_000usize;
            if reaches(ss, b, id, &mut fuel) {
                let detail = format!("variable id {} bound to {} which leads back to itself", id, b);
                panic::panic_any(Marker(EngineFail::Cycle { detail }));
            }
        }
    }
}

pub fn install_panic_hook() {
    if HOOK_SET.with(|c| c.get()) { return; }
    HOOK_SET.with(|c| c.set(true));
    panic::set_hook(Box::new(|info| {
        let loc = info.location().map(|l| format!("{}:{}", l.file(), l.line())).unwrap_or_default();
        let msg = if let Some(s) = info.payload().downcast_ref::<&str>() { s.to_string() }
                  else if let Some(s) = info.payload().downcast_ref::<String>() { s.clone() }
                  else if info.payload().downcast_ref::<Marker>().is_some() { "<marker>".to_string() }
                  else { "<non-string panic>".to_string() };
        if !IN_GUARD.with(|c| c.get()) { eprintln!("HARNESS PANIC (outside engine call) at {}: {}", loc, msg); }
        LAST_PANIC.with(|c| *c.borrow_mut() = Some((msg, loc)));
    }));
}

pub fn ticks() -> u64 { TICKS.with(|c| c.get()) }
/// Arrange for stop_query() to be called on entry to the k-th next_solution of the current guarded
/// run (k counted from 1 within that run; 0 disarms). "The timer fires at step k", on a schedule
/// the harness owns.
pub fn stop_at_tick(k: u64) { STOP_AT.with(|c| c.set(k)); STOP_DONE.with(|c| c.set(false)); }
pub fn stop_injected() -> bool { STOP_DONE.with(|c| c.get()) }
pub fn binds() -> u64 { BINDS.with(|c| c.get()) }

/// Run `f` with hooks installed; engine panics / cycles / budget overruns become `Err`.
pub fn guarded<T>(tick_limit: u64, f: impl FnOnce() -> T) -> Result<T, EngineFail> {
    install_panic_hook();
    TICKS.with(|c| c.set(0));
    BINDS.with(|c| c.set(0));
    TICK_LIMIT.with(|c| c.set(tick_limit));
    suiron::verif_hooks::verif_set_on_bind(Some(bind_hook));
    suiron::verif_hooks::verif_set_tick(Some(tick_hook));
    LAST_PANIC.with(|c| *c.borrow_mut() = None);
    IN_GUARD.with(|c| c.set(true));
    let r = panic::catch_unwind(AssertUnwindSafe(f));
    IN_GUARD.with(|c| c.set(false));
    STOP_AT.with(|c| c.set(0));
    suiron::verif_hooks::verif_set_on_bind(None);
    suiron::verif_hooks::verif_set_tick(None);
    match r {
        Ok(v) => Ok(v),
        Err(payload) => {
            if let Some(m) = payload.downcast_ref::<Marker>() { return Err(m.0.clone()); }
            let (msg, loc) = LAST_PANIC.with(|c| c.borrow().clone()).unwrap_or_default();
            // harness bugs must not be mistaken for engine panics
            if !loc.contains("/repo/") && !loc.starts_with("src/") && !loc.contains("suiron") && !loc.contains("/rustc/") && !loc.contains("library/") {
                eprintln!("HARNESS PANIC at {}: {}", loc, msg);
                std::process::exit(3);
            }
            Err(EngineFail::Panic { msg, loc: loc.replace("/repo/", "") })
        }
    }
}

#[derive(Clone, Debug, PartialEq)]
pub struct Answer {
    /// resolved query arguments
    pub args: Vec<Term>,
    /// stdout written while this answer was being derived
    pub out: String,
    /// list well-formedness problems seen in the resolved arguments
    pub problems: Vec<String>,
    /// the engine's own Display of each resolved argument
    pub display: Vec<String>,
}

#[derive(Clone, Debug, Default)]
pub struct EngineRun {
    pub answers: Vec<Answer>,
    /// stdout written between the last answer and the first `None`
    pub tail_out: String,
    /// results of asking again after the first `None`: (got an answer?, output)
    pub reasks: Vec<(bool, String)>,
    pub ticks: u64,
    /// stopped because max_answers was reached (no `None` seen)
    pub truncated: bool,
}

pub fn query_goal(p: &Program) -> suiron::Goal {
    let mut terms = vec![U::Atom(p.qname.clone())];
    for a in &p.qargs { terms.push(to_engine(a, &Ids::Zero)); }
    suiron::make_query(terms)
}

pub fn decode_answer(goal: &suiron::Goal, ss: &suiron::SubstitutionSet) -> (Vec<Term>, Vec<String>, Vec<String>) {
    let resolved = goal.replace_variables(ss);
    let mut shape = Shape::default();
    let display: Vec<String> = match &resolved {
        U::SComplex(v) => v[1..].iter().map(|x| format!("{}", x)).collect(),
        other => vec![format!("{}", other)],
    };
    match from_engine(&resolved, &mut shape) {
        Term::Cmp(_, args) => (args, shape.problems, display),
        other => (vec![other], shape.problems, display),
    }
}


/// Does following bindings from some variable of `ss` lead back to that variable (directly or through the arguments of
/// complex terms / elements of lists)? Checked on the substitution set itself, before anything tries to resolve it.
pub fn binding_cycle(ss: &suiron::SubstitutionSet) -> Option<String> {
    fn vars_of(u: &U, out: &mut Vec<usize>) {
        match u {
            U::LogicVar { id, .. } => out.push(*id),
            U::SComplex(v) => for x in v { vars_of(x, out); },
            U::SFunction { terms, .. } => for x in terms { vars_of(x, out); },
            U::SLinkedList { term, next, count, .. } => { if *count > 0 { vars_of(term, out); vars_of(next, out); } }
            _ => {}
        }
    }
    let n = ss.len();
    let edges: Vec<Vec<usize>> = (0..n).map(|i| { let mut o = vec![]; if let Some(t) = &ss[i] { vars_of(t, &mut o); } o.retain(|j| *j < n); o }).collect();
    // iterative three-colour depth-first search
    let mut colour = vec![0u8; n];
    for root in 0..n {
        if colour[root] != 0 { continue; }
        let mut stack: Vec<(usize, usize)> = vec![(root, 0)];
        colour[root] = 1;
        while let Some((v, k)) = stack.pop() {
            if k < edges[v].len() {
                stack.push((v, k + 1));
                let w = edges[v][k];
                if colour[w] == 1 { return Some(format!("the binding of variable #{} ({}) leads back to variable #{}", v, ss[v].as_ref().map(|t| format!("{}", t)).unwrap_or_default(), w)); }
                if colour[w] == 0 { colour[w] = 1; stack.push((w, 0)); }
            } else { colour[v] = 2; }
        }
    }
    None
}

/// Ask the query through `next_solution` until `None` (or `max_answers`), then `reasks` more times.
pub fn run_program(p: &Program, max_answers: usize, reasks: usize, tick_limit: u64) -> Result<EngineRun, EngineFail> {
    run_program_src(p, None, max_answers, reasks, tick_limit).map(|r| r.expect("ast kb cannot be rejected"))
}

/// Like run_program, but the knowledge base may come from source text (one rule per string,
/// parsed by the engine's parse_rule). Ok(Err(msg)) = the parser rejected a rule.
pub fn run_program_src(p: &Program, rules_text: Option<&[String]>, max_answers: usize, reasks: usize, tick_limit: u64) -> Result<Result<EngineRun, String>, EngineFail> {
    let cap = capture::active();
    if cap { let _ = capture::take(); }
    guarded(tick_limit, || {
        suiron::start_query();
        let kb = match rules_text {
            None => build_kb(&p.clauses),
            Some(texts) => {
                let mut kb = suiron::KnowledgeBase::new();
                for t in texts {
                    match suiron::parse_rule(t) {
                        Ok(r) => suiron::add_rules(&mut kb, vec![r]),
                        Err(e) => return Err(format!("parse_rule rejected `{}`: {}", t, e)),
                    }
                }
                kb
            }
        };
        let goal = Rc::new(query_goal(p));
        let sn = suiron::make_base_node(Rc::clone(&goal), &kb);
        let mut run = EngineRun::default();
        loop {
            if run.answers.len() >= max_answers { run.truncated = true; break; }
            match suiron::next_solution(Rc::clone(&sn)) {
                Some(ss) => {
                    let (args, problems, display) = decode_answer(&goal, &ss);
                    let out = if cap { capture::take() } else { String::new() };
                    run.answers.push(Answer { args, out, problems, display });
                }
                None => {
                    run.tail_out = if cap { capture::take() } else { String::new() };
                    break;
                }
            }
        }
        if !run.truncated {
            for _ in 0..reasks {
                let r = suiron::next_solution(Rc::clone(&sn));
                let out = if cap { capture::take() } else { String::new() };
                run.reasks.push((r.is_some(), out));
            }
        }
        run.ticks = ticks();
        Ok(run)
    })
}

/// The same query through `solve_all` (fresh node).
pub fn run_solve_all(p: &Program, tick_limit: u64) -> Result<(Vec<String>, String), EngineFail> {
    let cap = capture::active();
    if cap { let _ = capture::take(); }
    guarded(tick_limit, || {
        suiron::start_query();
        let kb = build_kb(&p.clauses);
        let goal = Rc::new(query_goal(p));
        let sn = suiron::make_base_node(Rc::clone(&goal), &kb);
        let r = suiron::solve_all(sn);
        let out = if cap { capture::take() } else { String::new() };
        (r, out)
    })
}
