//! Per-run bookkeeping: what was generated, what was non-trivial, discards, samples,
//! failures. Serialised as JSON for the driver (`check`), which merges workers.

use serde_json::{json, Value};
use std::collections::{BTreeMap, HashSet};

#[derive(Clone, Debug)]
pub struct Failure {
    /// short machine-readable kind, e.g. "answers-differ", "engine-panic"
    pub kind: String,
    /// signature used to match entries of known_findings.json
    pub signature: String,
    /// human readable: expected vs actual
    pub message: String,
    /// the case written out (program text, term pair, history ...)
    pub case: String,
}

pub enum CaseResult {
    Pass,
    /// out of the property's claim; reason is counted
    Discard(String),
    Fail(Failure),
}

#[derive(Default)]
pub struct Report {
    pub evaluations: u64,
    pub nontrivial: HashSet<u64>,
    pub classes: BTreeMap<String, u64>,
    pub discards: BTreeMap<String, u64>,
    pub known_hits: BTreeMap<String, u64>,
    pub samples: Vec<Value>,
    pub sample_cap: usize,
    pub exhaustive_evaluations: u64,
    pub exhaustive_families: Vec<Value>,
    pub frozen: bool,
    /// only decode the case (advance the enumeration), do not check it
    pub decode_only: bool,
    pub notes: Vec<String>,
}

impl Report {
    pub fn new() -> Self { Report { sample_cap: 6, ..Default::default() } }

    pub fn class(&mut self, name: &str) {
        if self.frozen { return; }
        *self.classes.entry(name.to_string()).or_insert(0) += 1;
    }
    pub fn class_n(&mut self, name: &str, n: u64) {
        if self.frozen || n == 0 { return; }
        *self.classes.entry(name.to_string()).or_insert(0) += n;
    }
    pub fn discard(&mut self, why: &str) {
        if self.frozen { return; }
        *self.discards.entry(why.to_string()).or_insert(0) += 1;
    }
    pub fn nontrivial(&mut self, fingerprint: u64) {
        if self.frozen { return; }
        self.nontrivial.insert(fingerprint);
    }
    pub fn eval(&mut self) { if !self.frozen { self.evaluations += 1; } }
    /// Keep a few non-trivial samples spread over the run.
    pub fn sample(&mut self, v: Value) {
        if self.frozen { return; }
        if self.samples.len() < self.sample_cap { self.samples.push(v); }
        else if self.evaluations % 997 == 0 {
            let i = (self.evaluations / 997) as usize % self.sample_cap;
            self.samples[i] = v;
        }
    }

    pub fn to_json(&self) -> Value {
        json!({
            "evaluations": self.evaluations,
            "distinct_nontrivial_local": self.nontrivial.len(),
            "classes": self.classes,
            "discards": self.discards,
            "known_hits": self.known_hits,
            "samples": self.samples,
            "exhaustive_evaluations": self.exhaustive_evaluations,
            "exhaustive_families": self.exhaustive_families,
            "notes": self.notes,
        })
    }
}

#[derive(Clone, Debug)]
pub struct KnownFinding {
    pub property: String,
    pub signature: String,
    pub what: String,
}

pub fn load_known(path: &str) -> Vec<KnownFinding> {
    let txt = match std::fs::read_to_string(path) { Ok(t) => t, Err(_) => return vec![] };
    let v: Value = match serde_json::from_str(&txt) { Ok(v) => v, Err(e) => { eprintln!("known_findings.json unreadable: {}", e); std::process::exit(3); } };
    let mut out = vec![];
    if let Some(arr) = v.get("known").and_then(|x| x.as_array()) {
        for k in arr {
            out.push(KnownFinding {
                property: k["property"].as_str().unwrap_or("").to_string(),
                signature: k["signature"].as_str().unwrap_or("").to_string(),
                what: k["what"].as_str().unwrap_or("").to_string(),
            });
        }
    }
    out
}
