//! Reference solver: depth-first, left-to-right, clause-order resolution written as a
//! success-continuation interpreter over the harness's own terms. Independent of the
//! engine's SolutionNode machinery. Implements Suiron's documented cut (see DESIGN §3.4),
//! `not`, the built-in predicates and functions (from their documentation), and logs
//! every output side effect in execution order.

use crate::ast::*;
use crate::rt::*;
use std::cell::Cell;
use std::collections::HashMap;
use std::rc::Rc;

#[derive(Clone, Debug, PartialEq)]
pub enum Event {
    Out(String),
    Answer(Vec<Term>),
}

#[derive(Clone, Debug, PartialEq)]
pub enum Status {
    Finished,
    OverBudget(&'static str),
    /// a built-in was applied outside its documented domain (case is out of claim)
    OutOfDomain(String),
    /// a unification needed the occurs check (out of claim)
    Occurs,
}

#[derive(Clone, Debug, Default)]
pub struct RefStats {
    pub steps: u64,
    pub max_depth: usize,
    pub answers: usize,
    /// some call / disjunction succeeded more than once (a real backtrack into a succeeded goal)
    pub multi_success: u64,
    pub rule_used: u64,
    pub cut_exec: u64,
    pub cut_pending_clause: u64,
    pub cut_pruned_left: u64,
    pub cut_then_fail: u64,
    pub cut_second_answer_suppressed: u64,
    /// a group containing an executed cut was left and what followed failed
    pub cut_group_left: u64,
    pub cut_in_callee_with_caller_alts: u64,
    pub not_succeeded: u64,
    pub not_failed: u64,
    pub outs: u64,
    pub unify_fail: u64,
    pub builtin_calls: u64,
    pub list_head_match: u64,
}

#[derive(Clone, Copy, PartialEq, Debug)]
enum Ctl { Continue, Unwind(u64), Halt }

struct Frame {
    id: u64,
    cut: Cell<bool>,
    pending_clauses: Cell<bool>,
    cuts: Cell<usize>,
}

#[derive(Debug)]
enum RGoal {
    Call(String, Vec<RT>),
    And(Vec<RGoal>),
    Or(Vec<RGoal>),
    Not(Box<RGoal>),
    Unify(RT, RT),
    Compare(CmpOp, RT, RT),
    BuiltIn(String, Vec<RT>),
    Nl,
    Cut,
    Fail,
}

pub struct Limits {
    pub steps: u64,
    pub depth: usize,
    pub answers: usize,
}

impl Default for Limits {
    fn default() -> Self { Limits { steps: 5000, depth: 150, answers: 200 } }
}

pub struct Solver<'p> {
    prog: &'p Program,
    index: HashMap<String, Vec<usize>>,
    pub s: Subst,
    limits: Limits,
    next_frame: u64,
    pub events: Vec<Event>,
    pub status: Status,
    pub stats: RefStats,
    open_calls: usize,
}

pub struct RefResult {
    pub events: Vec<Event>,
    pub status: Status,
    pub stats: RefStats,
}

impl RefResult {
    pub fn answers(&self) -> Vec<&Vec<Term>> {
        self.events.iter().filter_map(|e| if let Event::Answer(a) = e { Some(a) } else { None }).collect()
    }
    /// Output segments: one per answer (text written while deriving it) plus the tail.
    pub fn segments(&self) -> (Vec<String>, String) {
        let mut segs = vec![];
        let mut cur = String::new();
        for e in &self.events {
            match e {
                Event::Out(s) => cur.push_str(s),
                Event::Answer(_) => { segs.push(std::mem::take(&mut cur)); }
            }
        }
        (segs, cur)
    }
}

pub fn solve_program(prog: &Program, limits: Limits) -> RefResult {
    let mut index: HashMap<String, Vec<usize>> = HashMap::new();
    for (i, c) in prog.clauses.iter().enumerate() { index.entry(c.key()).or_default().push(i); }
    let mut sv = Solver { prog, index, s: { let mut s0 = Subst::new(); s0.func_eval = Some(eval_function); s0 }, limits, next_frame: 1, events: vec![], status: Status::Finished,
                          stats: RefStats::default(), open_calls: 0 };
    let mut env = HashMap::new();
    let qargs: Vec<RT> = prog.qargs.iter().map(|t| instantiate(t, &mut env, &mut sv.s)).collect();
    let goal = RGoal::Call(prog.qname.clone(), qargs.clone());
    let top = Frame { id: 0, cut: Cell::new(false), pending_clauses: Cell::new(false), cuts: Cell::new(0) };
    let mut k = |s: &mut Solver| -> Ctl {
        let ans: Vec<Term> = qargs.iter().map(|a| s.s.resolve(a)).collect();
        s.events.push(Event::Answer(ans));
        s.stats.answers += 1;
        if s.stats.answers >= s.limits.answers { s.status = Status::OverBudget("answers"); return Ctl::Halt; }
        Ctl::Continue
    };
    let _ = sv.solve(&goal, &top, 0, &mut k);
    RefResult { events: sv.events, status: sv.status, stats: sv.stats }
}

impl<'p> Solver<'p> {
    fn inst_goal(&mut self, g: &Goal, env: &mut HashMap<String, usize>) -> RGoal {
        match g {
            Goal::Call(n, a) => RGoal::Call(n.clone(), a.iter().map(|t| instantiate(t, env, &mut self.s)).collect()),
            Goal::And(gs) => RGoal::And(gs.iter().map(|x| self.inst_goal(x, env)).collect()),
            Goal::Or(gs) => RGoal::Or(gs.iter().map(|x| self.inst_goal(x, env)).collect()),
            Goal::Not(x) => RGoal::Not(Box::new(self.inst_goal(x, env))),
            Goal::Time(x) => self.inst_goal(x, env), // never generated for the solver
            Goal::Unify(a, b) => RGoal::Unify(instantiate(a, env, &mut self.s), instantiate(b, env, &mut self.s)),
            Goal::Compare(o, a, b) => RGoal::Compare(*o, instantiate(a, env, &mut self.s), instantiate(b, env, &mut self.s)),
            Goal::BuiltIn(n, a) => RGoal::BuiltIn(n.clone(), a.iter().map(|t| instantiate(t, env, &mut self.s)).collect()),
            Goal::Nl => RGoal::Nl,
            Goal::Cut => RGoal::Cut,
            Goal::Fail => RGoal::Fail,
        }
    }

    fn step(&mut self) -> bool {
        self.stats.steps += 1;
        if self.stats.steps > self.limits.steps { self.status = Status::OverBudget("steps"); return false; }
        true
    }

    fn solve_seq(&mut self, gs: &[RGoal], frame: &Frame, depth: usize, k: &mut dyn FnMut(&mut Solver<'p>) -> Ctl) -> Ctl {
        if gs.is_empty() { return k(self); }
        let (first, rest) = gs.split_first().unwrap();
        if rest.is_empty() { return self.solve(first, frame, depth, k); }
        self.solve(first, frame, depth, &mut |s: &mut Solver<'p>| s.solve_seq(rest, frame, depth, k))
    }

    fn solve(&mut self, g: &RGoal, frame: &Frame, depth: usize, k: &mut dyn FnMut(&mut Solver<'p>) -> Ctl) -> Ctl {
        match g {
            // A conjunction or disjunction written as one item of a body is a *group*: a node
            // of its own in the proof tree. A cut executed inside it disables backtracking on
            // it ("and all its ancestors"), so once the group has been left with a solution it
            // is never re-entered: if what follows then fails, the call is over.
            RGoal::And(gs) => {
                let c0 = frame.cuts.get();
                let mut kg = |s: &mut Solver<'p>| -> Ctl {
                    let c1 = frame.cuts.get();
                    let r = k(s);
                    if r == Ctl::Continue && c1 > c0 { s.stats.cut_group_left += 1; return Ctl::Unwind(frame.id); }
                    r
                };
                self.solve_seq(gs, frame, depth, &mut kg)
            }
            RGoal::Or(gs) => {
                let mut successes = 0u32;
                let c0 = frame.cuts.get();
                for (i, alt) in gs.iter().enumerate() {
                    let mark = self.s.mark();
                    let mut k2 = |s: &mut Solver<'p>| {
                        successes += 1;
                        let c1 = frame.cuts.get();
                        let r = k(s);
                        if r == Ctl::Continue && c1 > c0 { s.stats.cut_group_left += 1; return Ctl::Unwind(frame.id); }
                        r
                    };
                    let r = self.solve(alt, frame, depth, &mut k2);
                    self.s.undo(mark);
                    match r {
                        Ctl::Continue => {}
                        Ctl::Unwind(id) => {
                            if i + 1 < gs.len() && id == frame.id { self.stats.cut_pruned_left += 1; }
                            return r;
                        }
                        Ctl::Halt => return r,
                    }
                }
                if successes >= 2 { self.stats.multi_success += 1; }
                Ctl::Continue
            }
            RGoal::Not(inner) => {
                if !self.step() { return Ctl::Halt; }
                let nf = Frame { id: self.next_frame, cut: Cell::new(false), pending_clauses: Cell::new(false), cuts: Cell::new(0) };
                self.next_frame += 1;
                let mark = self.s.mark();
                let mut found = false;
                let nid = nf.id;
                let r = self.solve(inner, &nf, depth, &mut |_s: &mut Solver<'p>| { found = true; Ctl::Unwind(nid) });
                self.s.undo(mark);
                match r {
                    Ctl::Halt => return Ctl::Halt,
                    Ctl::Unwind(id) if id != nid => return r,
                    _ => {}
                }
                if found { self.stats.not_failed += 1; Ctl::Continue }
                else { self.stats.not_succeeded += 1; k(self) }
            }
            RGoal::Cut => {
                if !self.step() { return Ctl::Halt; }
                self.stats.cut_exec += 1;
                if frame.pending_clauses.get() { self.stats.cut_pending_clause += 1; }
                if self.open_calls > 1 { self.stats.cut_in_callee_with_caller_alts += 1; }
                frame.cut.set(true);
                frame.cuts.set(frame.cuts.get() + 1);
                let before = self.events.len();
                let r = k(self);
                match r {
                    Ctl::Continue => {
                        if !self.events[before..].iter().any(|e| matches!(e, Event::Answer(_))) { self.stats.cut_then_fail += 1; }
                        Ctl::Unwind(frame.id)
                    }
                    other => other,
                }
            }
            RGoal::Fail => { if !self.step() { return Ctl::Halt; } Ctl::Continue }
            RGoal::Nl => {
                if !self.step() { return Ctl::Halt; }
                self.events.push(Event::Out("\n".to_string()));
                self.stats.outs += 1;
                k(self)
            }
            RGoal::Unify(a, b) => {
                if !self.step() { return Ctl::Halt; }
                let mark = self.s.mark();
                let ok = match self.unify_goal(a, b) {
                    Ok(b) => b,
                    Err(why) => { self.status = Status::OutOfDomain(why); return Ctl::Halt; }
                };
                if self.unify_halts() { return Ctl::Halt; }
                let r = if ok { k(self) } else { self.stats.unify_fail += 1; Ctl::Continue };
                self.s.undo(mark);
                r
            }
            RGoal::Compare(op, a, b) => {
                if !self.step() { return Ctl::Halt; }
                let x = self.s.walk(a);
                let y = self.s.walk(b);
                if compare_consts(*op, &x, &y) { k(self) } else { Ctl::Continue }
            }
            RGoal::BuiltIn(name, args) => {
                if !self.step() { return Ctl::Halt; }
                self.stats.builtin_calls += 1;
                let mark = self.s.mark();
                let res = self.builtin(name, args);
                if self.unify_halts() { return Ctl::Halt; }
                let r = match res {
                    Ok(true) => k(self),
                    Ok(false) => Ctl::Continue,
                    Err(why) => { self.status = Status::OutOfDomain(why); Ctl::Halt }
                };
                self.s.undo(mark);
                r
            }
            RGoal::Call(name, args) => {
                if !self.step() { return Ctl::Halt; }
                if depth >= self.limits.depth { self.status = Status::OverBudget("depth"); return Ctl::Halt; }
                if depth + 1 > self.stats.max_depth { self.stats.max_depth = depth + 1; }
                let key = format!("{}/{}", name, args.len());
                let idxs: Vec<usize> = match self.index.get(&key) { Some(v) => v.clone(), None => return Ctl::Continue };
                let fr = Frame { id: self.next_frame, cut: Cell::new(false), pending_clauses: Cell::new(false), cuts: Cell::new(0) };
                self.next_frame += 1;
                let mut successes = 0u32;
                let n = idxs.len();
                for (pos, ci) in idxs.iter().enumerate() {
                    let clause = &self.prog.clauses[*ci];
                    let mut env = HashMap::new();
                    let mark = self.s.mark();
                    let hargs: Vec<RT> = clause.args.iter().map(|t| instantiate(t, &mut env, &mut self.s)).collect();
                    let mut ok = true;
                    for (h, a) in hargs.iter().zip(args.iter()) {
                        if !self.s.unify(h, a) { ok = false; break; }
                        if self.unify_halts() { return Ctl::Halt; }
                    }
                    if !ok { self.s.undo(mark); continue; }
                    if clause.args.iter().any(|t| matches!(t, Term::List(..))) { self.stats.list_head_match += 1; }
                    fr.pending_clauses.set(pos + 1 < n);
                    let r = match &clause.body {
                        None => { successes += 1; k(self) }
                        Some(b) => {
                            self.stats.rule_used += 1;
                            let body = self.inst_goal(b, &mut env);
                            self.open_calls += 1;
                            let frr = &fr;
                            let mut kend = |s: &mut Solver<'p>| -> Ctl {
                                successes += 1;
                                s.open_calls -= 1;
                                let r = k(s);
                                s.open_calls += 1;
                                if frr.cut.get() && r == Ctl::Continue {
                                    s.stats.cut_second_answer_suppressed += 1;
                                    return Ctl::Unwind(frr.id);
                                }
                                r
                            };
                            let r = self.solve(&body, &fr, depth + 1, &mut kend);
                            self.open_calls -= 1;
                            r
                        }
                    };
                    self.s.undo(mark);
                    match r {
                        Ctl::Continue => {}
                        Ctl::Unwind(id) if id == fr.id => { break; }
                        other => return other,
                    }
                }
                if successes >= 2 { self.stats.multi_success += 1; }
                Ctl::Continue
            }
        }
    }

    // --------------------------------------------------------------- built-ins

    /// A unification ran into a cycle or evaluated a function outside its domain: the case is out of the model.
    fn unify_halts(&mut self) -> bool {
        if self.s.occurs_hit { self.status = Status::Occurs; return true; }
        if let Some(why) = self.s.func_err.take() { self.status = Status::OutOfDomain(why); return true; }
        false
    }

    fn unify_goal(&mut self, a: &RT, b: &RT) -> Result<bool, String> {
        let x = self.eval_if_func(a)?;
        let y = self.eval_if_func(b)?;
        Ok(self.s.unify(&x, &y))
    }

    fn eval_if_func(&mut self, t: &RT) -> Result<RT, String> {
        match self.s.walk(t) {
            RT::Func(name, args) => eval_function(&self.s, &name, &args),
            // not a function: the term as written (a variable stays a variable, so that `$Y = $Y` is seen as such)
            _ => Ok(t.clone()),
        }
    }

    /// Elements of a list value, following bound tails. Err if the list is open-ended.
    fn list_elems(&self, t: &RT) -> Result<Option<Vec<RT>>, String> {
        let mut cur = self.s.walk(t);
        let mut out = vec![];
        let mut guard = 0;
        loop {
            guard += 1;
            if guard > 100_000 { return Err("cyclic list".into()); }
            match cur {
                RT::Nil => return Ok(Some(out)),
                RT::Cons(h, tl) => { out.push((*h).clone()); cur = self.s.walk(&tl); }
                RT::Var(_) | RT::Anon => { if out.is_empty() { return Ok(None); } return Err("list with unbound tail".into()); }
                _ => { if out.is_empty() { return Ok(None); } return Err("improper list".into()); }
            }
        }
    }

    fn mk_list(elems: Vec<RT>) -> RT {
        let mut cur = RT::Nil;
        for e in elems.into_iter().rev() { cur = RT::Cons(Rc::new(e), Rc::new(cur)); }
        cur
    }

    fn builtin(&mut self, name: &str, args: &[RT]) -> Result<bool, String> {
        match name {
            "append" => {
                if args.len() < 2 { return Err("append arity".into()); }
                let mut out = vec![];
                for a in &args[..args.len() - 1] {
                    let w = self.s.walk(a);
                    match &w {
                        RT::Var(_) => return Err("append: unbound input".into()),
                        RT::Anon => return Err("append: $_ input".into()),
                        RT::Func(..) => return Err("append: function input".into()),
                        RT::Nil | RT::Cons(..) => match self.list_elems(&w)? {
                            Some(es) => out.extend(es),
                            None => return Err("append: odd list".into()),
                        },
                        other => out.push(other.clone()),
                    }
                }
                let l = Self::mk_list(out);
                Ok(self.s.unify(&args[args.len() - 1], &l))
            }
            "count" => {
                if args.len() != 2 { return Err("count arity".into()); }
                let w = self.s.walk(&args[0]);
                let n = match &w {
                    RT::Nil | RT::Cons(..) => match self.list_elems(&w)? { Some(es) => es.len() as i64, None => return Err("count: odd".into()) },
                    _ => return Err("count: not a list".into()),
                };
                Ok(self.s.unify(&args[1], &RT::Int(n)))
            }
            "include" | "exclude" => {
                if args.len() != 3 { return Err("filter arity".into()); }
                let w = self.s.walk(&args[1]);
                let es = match &w {
                    RT::Nil | RT::Cons(..) => match self.list_elems(&w)? { Some(es) => es, None => return Err("filter: odd".into()) },
                    _ => return Err("filter: not a list".into()),
                };
                let want = name == "include";
                let mut kept = vec![];
                for e in es {
                    let mark = self.s.mark();
                    let m = self.s.unify(&args[0], &e);
                    if self.s.occurs_hit { return Ok(false); }
                    if let Some(why) = self.s.func_err.take() { return Err(why); }
                    self.s.undo(mark);
                    if m == want { kept.push(e); }
                }
                let l = Self::mk_list(kept);
                Ok(self.s.unify(&args[2], &l))
            }
            "functor" => {
                if args.len() < 2 || args.len() > 3 { return Err("functor arity".into()); }
                let (f, n) = match self.s.walk(&args[0]) {
                    RT::Cmp(f, a) => (f, a.len() as i64),
                    RT::Var(_) | RT::Anon => return Err("functor: unbound first argument".into()),
                    _ => return Ok(false),
                };
                match self.s.walk(&args[1]) {
                    RT::Atom(pat) => {
                        if pat.is_empty() { return Err("functor: empty pattern".into()); }
                        let m = if let Some(prefix) = pat.strip_suffix('*') { f.starts_with(prefix) } else { *f == *pat };
                        if !m { return Ok(false); }
                    }
                    v @ RT::Var(_) => { if !self.s.unify(&v, &RT::Atom(f.clone())) { return Ok(false); } }
                    RT::Anon => return Err("functor: $_ as functor argument".into()),
                    _ => return Ok(false),
                }
                if args.len() == 3 { Ok(self.s.unify(&args[2], &RT::Int(n))) } else { Ok(true) }
            }
            "print" => {
                if args.is_empty() { return Err("print arity".into()); }
                let mut strs = vec![];
                for a in args {
                    let w = self.s.walk(a);
                    if !syntactically_ground(&w) { return Err("print: argument not bound to a ground value".into()); }
                    strs.push(self.s.resolve(&w).value_text());
                }
                let text = format_print(&strs)?;
                self.events.push(Event::Out(text));
                self.stats.outs += 1;
                Ok(true)
            }
            "print_list" => {
                // Every argument is written on a line of its own: a list as its elements
                // separated by ", ", anything else as its value. A list which is not the
                // first argument is preceded by a line holding a comma (documented example:
                // print_list([一, 二, 三], Not a list.) writes "一, 二, 三\nNot a list.\n").
                if args.is_empty() { return Err("print_list arity".into()); }
                let mut text = String::new();
                for (i, a) in args.iter().enumerate() {
                    let w = self.s.walk(a);
                    match &w {
                        RT::Nil | RT::Cons(..) => {
                            let es = match self.list_elems(&w)? { Some(es) => es, None => return Err("print_list: odd".into()) };
                            let mut parts = vec![];
                            for e in es {
                                let we = self.s.walk(&e);
                                if !syntactically_ground(&we) { return Err("print_list: element not bound to a ground value".into()); }
                                parts.push(self.s.resolve(&we).value_text());
                            }
                            if i > 0 { text.push_str(",\n"); }
                            text.push_str(&parts.join(", "));
                            text.push('\n');
                        }
                        other => {
                            if !syntactically_ground(other) { return Err("print_list: argument not bound to a ground value".into()); }
                            text.push_str(&self.s.resolve(other).value_text());
                            text.push('\n');
                        }
                    }
                }
                self.events.push(Event::Out(text));
                self.stats.outs += 1;
                Ok(true)
            }
            other => Err(format!("unknown built-in {}", other)),
        }
    }
}

pub fn syntactically_ground(t: &RT) -> bool {
    match t {
        RT::Var(_) | RT::Anon => false,
        RT::Cmp(_, a) | RT::Func(_, a) => a.iter().all(syntactically_ground),
        RT::Cons(h, tl) => syntactically_ground(h) && syntactically_ground(tl),
        _ => true,
    }
}

/// print: substitute later arguments for the `%s` markers of the first; concatenate when there are none.
pub fn format_print(strs: &[String]) -> Result<String, String> {
    let fmt = &strs[0];
    let parts: Vec<&str> = fmt.split("%s").collect();
    let markers = parts.len() - 1;
    let nargs = strs.len() - 1;
    if markers == 0 {
        let mut out = fmt.clone();
        for s in &strs[1..] { out.push_str(s); }
        return Ok(out);
    }
    // k-th argument in place of the k-th marker. More arguments than markers: the rest is appended
    // (the repository's test_format_for_print_pred: "Hello, %s. " + Dave + "You're ..."). Fewer: an unfilled
    // marker is replaced by nothing, the text around it stays.
    let mut out = parts[0].to_string();
    for i in 0..markers {
        if i < nargs { out.push_str(&strs[i + 1]); }
        out.push_str(parts[i + 1]);
    }
    for i in markers..nargs { out.push_str(&strs[i + 1]); }
    Ok(out)
}

pub fn compare_consts(op: CmpOp, x: &RT, y: &RT) -> bool {
    use std::cmp::Ordering::*;
    let ord_ok = |o: Option<std::cmp::Ordering>| -> bool {
        match (op, o) {
            (CmpOp::Eq, Some(Equal)) => true,
            (CmpOp::Lt, Some(Less)) => true,
            (CmpOp::Le, Some(Less)) | (CmpOp::Le, Some(Equal)) => true,
            (CmpOp::Gt, Some(Greater)) => true,
            (CmpOp::Ge, Some(Greater)) | (CmpOp::Ge, Some(Equal)) => true,
            _ => false,
        }
    };
    match (x, y) {
        (RT::Atom(a), RT::Atom(b)) => ord_ok(Some(a.as_ref().cmp(b.as_ref()))),
        (RT::Int(a), RT::Int(b)) => ord_ok(Some(a.cmp(b))),
        (RT::Float(a), RT::Float(b)) => ord_ok(a.partial_cmp(b)),
        (RT::Float(a), RT::Int(b)) => ord_ok(a.partial_cmp(&(*b as f64))),
        (RT::Int(a), RT::Float(b)) => ord_ok((*a as f64).partial_cmp(b)),
        _ => false,
    }
}

#[derive(Clone, Copy, Debug, PartialEq)]
pub enum Num { I(i64), F(f64) }

/// Left fold; `None` = integer overflow or integer division by zero (outside the claim).
pub fn fold_arith(op: &str, nums: &[Num]) -> Option<Num> {
    if nums.is_empty() { return None; }
    let any_float = nums.iter().any(|n| matches!(n, Num::F(_)));
    if any_float {
        let fs: Vec<f64> = nums.iter().map(|n| match n { Num::I(i) => *i as f64, Num::F(f) => *f }).collect();
        let r = match op {
            "add" => fs.iter().fold(0.0, |a, x| a + x),
            "multiply" => fs.iter().fold(1.0, |a, x| a * x),
            "subtract" => fs[1..].iter().fold(fs[0], |a, x| a - x),
            "divide" => fs[1..].iter().fold(fs[0], |a, x| a / x),
            _ => return None,
        };
        Some(Num::F(r))
    } else {
        let is: Vec<i64> = nums.iter().map(|n| match n { Num::I(i) => *i, Num::F(_) => unreachable!() }).collect();
        let r = match op {
            "add" => is.iter().try_fold(0i64, |a, x| a.checked_add(*x))?,
            "multiply" => is.iter().try_fold(1i64, |a, x| a.checked_mul(*x))?,
            "subtract" => is[1..].iter().try_fold(is[0], |a, x| a.checked_sub(*x))?,
            "divide" => is[1..].iter().try_fold(is[0], |a, x| a.checked_div(*x))?,
            _ => return None,
        };
        Some(Num::I(r))
    }
}

pub fn is_punct(s: &str) -> bool { s == "," || s == "." || s == "?" || s == "!" }

/// join: words separated by single spaces, `, . ? !` attached to the previous word.
pub fn join_words(words: &[String]) -> String {
    let mut out = String::new();
    let mut first = true;
    for w in words {
        if is_punct(w) { out.push_str(w); }
        else if first { out.push_str(w); }
        else { out.push(' '); out.push_str(w); }
        first = false;
    }
    out
}

pub fn eval_function(s: &Subst, name: &str, args: &[RT]) -> Result<RT, String> {
    match name {
        "add" | "subtract" | "multiply" | "divide" => {
            let mut nums = vec![];
            for a in args {
                match s.walk(a) {
                    RT::Int(i) => nums.push(Num::I(i)),
                    RT::Float(f) => nums.push(Num::F(f)),
                    RT::Var(_) => return Err("arithmetic on unbound variable".into()),
                    _ => return Err("arithmetic on non-number".into()),
                }
            }
            match fold_arith(name, &nums) {
                Some(Num::I(i)) => Ok(RT::Int(i)),
                Some(Num::F(f)) => Ok(RT::Float(f)),
                None => Err("integer overflow / division by zero / no arguments".into()),
            }
        }
        "join" => {
            let mut words = vec![];
            for a in args {
                let w = s.walk(a);
                match &w {
                    RT::Nil | RT::Cons(..) => {
                        let mut cur = w.clone();
                        loop {
                            match cur {
                                RT::Nil => break,
                                RT::Cons(h, tl) => {
                                    let e = s.walk(&h);
                                    if !syntactically_ground(&e) { return Err("join: list element not bound to a ground value".into()); }
                                    words.push(s.resolve(&e).value_text());
                                    cur = s.walk(&tl);
                                }
                                _ => return Err("join: open list".into()),
                            }
                        }
                    }
                    other => {
                        if !syntactically_ground(other) { return Err("join: argument not bound to a ground value".into()); }
                        words.push(s.resolve(other).value_text());
                    }
                }
            }
            Ok(RT::Atom(Rc::from(join_words(&words).as_str())))
        }
        other => Err(format!("unknown function {}", other)),
    }
}
