//! Choice sources. Every generator in this crate is a deterministic decoder of a
//! sequence of bounded choices (`draw(n)` in `0..n`). The sequence comes from
//!   * proptest (`vec(any::<u16>())`, so proptest owns randomness and shrinking),
//!   * an odometer (bounded-exhaustive enumeration of *all* choice sequences),
//!   * raw fuzzer bytes (libFuzzer / `arbitrary::Unstructured`-style decoding),
//!   * a saved replay file.
//! `0` is always the simplest alternative and an exhausted source yields `0`, so
//! shrinking the sequence (deleting / zeroing entries) shrinks the case.

pub trait Src {
    /// Uniform-ish choice in `0..n` (`n >= 1`). Monotone in the underlying value.
    fn draw(&mut self, n: u32) -> u32;
    /// True once the underlying sequence has been used up (only informative).
    fn exhausted(&self) -> bool { false }
}

pub struct VecSrc<'a> {
    data: &'a [u16],
    pos: usize,
}

impl<'a> VecSrc<'a> {
    pub fn new(data: &'a [u16]) -> Self { VecSrc { data, pos: 0 } }
    pub fn used(&self) -> usize { self.pos }
}

impl<'a> Src for VecSrc<'a> {
    fn draw(&mut self, n: u32) -> u32 {
        if n <= 1 { return 0; }
        if self.pos < self.data.len() {
            let v = self.data[self.pos] as u64;
            self.pos += 1;
            ((v * n as u64) >> 16) as u32
        } else { 0 }
    }
    fn exhausted(&self) -> bool { self.pos >= self.data.len() }
}

/// Byte source for fuzz targets: one byte per choice when n <= 256, two otherwise.
pub struct ByteSrc<'a> {
    data: &'a [u8],
    pos: usize,
}

impl<'a> ByteSrc<'a> {
    pub fn new(data: &'a [u8]) -> Self { ByteSrc { data, pos: 0 } }
}

impl<'a> Src for ByteSrc<'a> {
    fn draw(&mut self, n: u32) -> u32 {
        if n <= 1 { return 0; }
        if n <= 256 {
            if self.pos < self.data.len() {
                let v = self.data[self.pos] as u32;
                self.pos += 1;
                (v * n) >> 8
            } else { 0 }
        } else {
            if self.pos + 1 < self.data.len() {
                let v = ((self.data[self.pos] as u64) << 8) | self.data[self.pos + 1] as u64;
                self.pos += 2;
                ((v * n as u64) >> 16) as u32
            } else { self.pos = self.data.len(); 0 }
        }
    }
    fn exhausted(&self) -> bool { self.pos >= self.data.len() }
}

/// Odometer source: enumerates every choice sequence a generator can consume.
/// Usage: `let mut e = EnumSrc::new(); loop { e.restart(); gen(&mut e); if !e.advance() {break} }`
pub struct EnumSrc {
    /// (choice taken, number of alternatives) per position of the current run
    trail: Vec<(u32, u32)>,
    pos: usize,
}

impl EnumSrc {
    pub fn new() -> Self { EnumSrc { trail: vec![], pos: 0 } }
    pub fn restart(&mut self) { self.pos = 0; }
    /// Move to the next sequence in lexicographic order; false when finished.
    pub fn advance(&mut self) -> bool {
        self.trail.truncate(self.pos);
        while let Some((c, n)) = self.trail.pop() {
            if c + 1 < n {
                self.trail.push((c + 1, n));
                return true;
            }
        }
        false
    }
    pub fn current(&self) -> Vec<u32> { self.trail.iter().map(|x| x.0).collect() }
}

impl Src for EnumSrc {
    fn draw(&mut self, n: u32) -> u32 {
        let n = n.max(1);
        if self.pos < self.trail.len() {
            let (c, m) = self.trail[self.pos];
            // the generator is deterministic, so m == n here
            debug_assert_eq!(m, n);
            self.pos += 1;
            c.min(n - 1)
        } else {
            self.trail.push((0, n));
            self.pos += 1;
            0
        }
    }
}

/// Replays explicit choices (values are taken modulo nothing: clamped).
pub struct ListSrc {
    pub data: Vec<u32>,
    pos: usize,
}
impl ListSrc { pub fn new(data: Vec<u32>) -> Self { ListSrc { data, pos: 0 } } }
impl Src for ListSrc {
    fn draw(&mut self, n: u32) -> u32 {
        let n = n.max(1);
        if self.pos < self.data.len() {
            let c = self.data[self.pos];
            self.pos += 1;
            c.min(n - 1)
        } else { 0 }
    }
}

// ---------------------------------------------------------------- helpers

pub fn pick<T: Clone>(s: &mut dyn Src, xs: &[T]) -> T {
    xs[s.draw(xs.len() as u32) as usize].clone()
}

/// Weighted choice; index 0 should be the simplest alternative.
pub fn weighted(s: &mut dyn Src, ws: &[u32]) -> usize {
    let total: u32 = ws.iter().sum();
    let mut v = s.draw(total);
    for (i, w) in ws.iter().enumerate() {
        if v < *w { return i; }
        v -= *w;
    }
    ws.len() - 1
}

/// True with probability num/den; false is the simple alternative.
pub fn chance(s: &mut dyn Src, num: u32, den: u32) -> bool {
    s.draw(den) >= den - num
}

/// Integer in lo..=hi, lo simplest.
pub fn range(s: &mut dyn Src, lo: u32, hi: u32) -> u32 {
    lo + s.draw(hi - lo + 1)
}

/// splitmix64, used only to derive per-worker seeds from VERIF_SEED.
pub fn splitmix(mut x: u64) -> u64 {
    x = x.wrapping_add(0x9E3779B97F4A7C15);
    let mut z = x;
    z = (z ^ (z >> 30)).wrapping_mul(0xBF58476D1CE4E5B9);
    z = (z ^ (z >> 27)).wrapping_mul(0x94D049BB133111EB);
    z ^ (z >> 31)
}

pub fn fnv(s: &str) -> u64 {
    let mut h: u64 = 0xcbf29ce484222325;
    for b in s.as_bytes() { h ^= *b as u64; h = h.wrapping_mul(0x100000001b3); }
    h
}
