//! sverif: property-based testing / fuzzing harness for Indrikoterio/suiron-rust.
pub mod choice;
pub mod ast;
pub mod ast_parse;
pub mod bridge;
pub mod rt;
pub mod refsolve;
pub mod capture;
pub mod engine;
pub mod report;
pub mod driver;
pub mod gen;
pub mod render;
pub mod props;
pub mod ub;
pub mod fuzzrt;
