//! Reference runtime: terms with numbered variables, triangular substitution with a
//! trail, Robinson unification (no occurs check, but occurs *detection*), `$_` wildcard.

use crate::ast::Term;
use std::collections::HashMap;
use std::rc::Rc;

#[derive(Clone, Debug, PartialEq)]
pub enum RT {
    Atom(Rc<str>),
    Int(i64),
    Float(f64),
    Var(usize),
    Anon,
    Cmp(Rc<str>, Rc<Vec<RT>>),
    Nil,
    Cons(Rc<RT>, Rc<RT>),
    Func(Rc<str>, Rc<Vec<RT>>),
}

#[derive(Default)]
pub struct Subst {
    pub bind: Vec<Option<RT>>,
    pub trail: Vec<usize>,
    /// set when a unification bound a variable to a term containing it
    pub occurs_hit: bool,
    /// evaluator for built-in function terms met during unification (the engine evaluates a function term wherever
    /// unification meets it, also as an argument of a complex term or an element of a list); None: functions are inert
    pub func_eval: Option<fn(&Subst, &str, &[RT]) -> Result<RT, String>>,
    /// set when such an evaluation was outside the function's domain
    pub func_err: Option<String>,
}

impl Subst {
    pub fn new() -> Self { Subst::default() }
    pub fn fresh(&mut self) -> usize { self.bind.push(None); self.bind.len() - 1 }
    pub fn fresh_n(&mut self, n: usize) -> usize { let b = self.bind.len(); for _ in 0..n { self.bind.push(None); } b }
    pub fn mark(&self) -> usize { self.trail.len() }
    pub fn undo(&mut self, mark: usize) {
        while self.trail.len() > mark {
            let v = self.trail.pop().unwrap();
            self.bind[v] = None;
        }
    }
    fn set(&mut self, v: usize, t: RT) {
        self.bind[v] = Some(t);
        self.trail.push(v);
    }

    /// Dereference a term through variable bindings (one level: result is unbound var or non-var).
    pub fn walk(&self, t: &RT) -> RT {
        let mut cur = t.clone();
        let mut steps = 0;
        loop {
            match cur {
                RT::Var(v) => match &self.bind[v] {
                    Some(b) => { cur = b.clone(); steps += 1; if steps > self.bind.len() + 1 { return cur; } }
                    None => return RT::Var(v),
                },
                other => return other,
            }
        }
    }

    fn occurs(&self, v: usize, t: &RT, fuel: &mut usize) -> bool {
        if *fuel == 0 { return true; }
        *fuel -= 1;
        match self.walk(t) {
            RT::Var(w) => w == v,
            RT::Cmp(_, a) | RT::Func(_, a) => a.iter().any(|x| self.occurs(v, x, fuel)),
            RT::Cons(h, tl) => self.occurs(v, &h, fuel) || self.occurs(v, &tl, fuel),
            _ => false,
        }
    }

    /// Reference unification. `$_` matches anything and never binds or is bound to
    /// (a variable unified with a bare `$_` stays unbound).
    pub fn unify(&mut self, a: &RT, b: &RT) -> bool {
        // a variable unifies with itself whatever it is bound to: if the two binding chains meet at a variable the
        // terms are identical (this only matters for a variable bound to NaN, which is not equal to itself as a value)
        if let (RT::Var(_), RT::Var(_)) = (a, b) {
            let chain = |me: &Subst, t: &RT| -> Vec<usize> { let mut out = vec![]; let mut cur = t.clone(); while let RT::Var(v) = cur { if out.contains(&v) { break; } out.push(v); match &me.bind[v] { Some(n) => cur = n.clone(), None => break } } out };
            let (ca, cb) = (chain(self, a), chain(self, b));
            if ca.iter().any(|v| cb.contains(v)) { return true; }
        }
        let a = self.walk(a);
        let b = self.walk(b);
        match (&a, &b) {
            (RT::Anon, _) | (_, RT::Anon) => true,
            (RT::Func(..), _) | (_, RT::Func(..)) if self.func_eval.is_some() => {
                let ev = self.func_eval.unwrap();
                let side = |t: &RT, me: &Subst| -> Result<RT, String> { match t { RT::Func(n, args) => ev(me, n, args), o => Ok(o.clone()) } };
                let x = match side(&a, self) { Ok(v) => v, Err(e) => { self.func_err = Some(e); return false; } };
                let y = match side(&b, self) { Ok(v) => v, Err(e) => { self.func_err = Some(e); return false; } };
                self.unify(&x, &y)
            }
            (RT::Var(x), RT::Var(y)) => { if x != y { self.set(*x, RT::Var(*y)); } true }
            (RT::Var(x), t) | (t, RT::Var(x)) => {
                let mut fuel = 100_000;
                if self.occurs(*x, t, &mut fuel) { self.occurs_hit = true; }
                self.set(*x, t.clone());
                true
            }
            (RT::Atom(x), RT::Atom(y)) => x == y,
            (RT::Int(x), RT::Int(y)) => x == y,
            (RT::Float(x), RT::Float(y)) => x == y,
            (RT::Nil, RT::Nil) => true,
            (RT::Cmp(f, xs), RT::Cmp(g, ys)) => {
                if f != g || xs.len() != ys.len() { return false; }
                for (x, y) in xs.iter().zip(ys.iter()) {
                    if self.occurs_hit { return true; }
                    if !self.unify(x, y) { return false; }
                }
                true
            }
            (RT::Cons(h1, t1), RT::Cons(h2, t2)) => {
                if !self.unify(h1, h2) { return false; }
                if self.occurs_hit { return true; }
                self.unify(t1, t2)
            }
            _ => false,
        }
    }

    /// Full resolution into an ast term. Unbound variables become `Var("_G<n>")`.
    pub fn resolve(&self, t: &RT) -> Term {
        let mut fuel = 200_000usize;
        self.resolve_f(t, &mut fuel).normalise()
    }

    fn resolve_f(&self, t: &RT, fuel: &mut usize) -> Term {
        if *fuel == 0 { return Term::Atom("<cyclic>".into()); }
        *fuel -= 1;
        match self.walk(t) {
            RT::Atom(s) => Term::Atom(s.to_string()),
            RT::Int(i) => Term::Int(i),
            RT::Float(f) => Term::Float(f),
            RT::Var(v) => Term::Var(format!("_G{}", v)),
            RT::Anon => Term::Anon,
            RT::Cmp(f, a) => Term::Cmp(f.to_string(), a.iter().map(|x| self.resolve_f(x, fuel)).collect()),
            RT::Func(f, a) => Term::Func(f.to_string(), a.iter().map(|x| self.resolve_f(x, fuel)).collect()),
            RT::Nil => Term::List(vec![], None),
            RT::Cons(..) => {
                let mut elems = vec![];
                let mut cur = self.walk(t);
                loop {
                    if *fuel == 0 { return Term::Atom("<cyclic>".into()); }
                    *fuel -= 1;
                    match cur {
                        RT::Cons(h, tl) => { elems.push(self.resolve_f(&h, fuel)); cur = self.walk(&tl); }
                        RT::Nil => return Term::List(elems, None),
                        other => return Term::List(elems, Some(Box::new(self.resolve_f(&other, fuel)))),
                    }
                }
            }
        }
    }
}

/// Source term -> runtime term, variables looked up / created in `env`.
pub fn instantiate(t: &Term, env: &mut HashMap<String, usize>, s: &mut Subst) -> RT {
    match t {
        Term::Atom(a) => RT::Atom(Rc::from(a.as_str())),
        Term::Int(i) => RT::Int(*i),
        Term::Float(f) => RT::Float(*f),
        Term::Var(n) => {
            if let Some(v) = env.get(n) { RT::Var(*v) } else { let v = s.fresh(); env.insert(n.clone(), v); RT::Var(v) }
        }
        Term::Anon => RT::Anon,
        Term::Cmp(f, a) => RT::Cmp(Rc::from(f.as_str()), Rc::new(a.iter().map(|x| instantiate(x, env, s)).collect())),
        Term::Func(f, a) => RT::Func(Rc::from(f.as_str()), Rc::new(a.iter().map(|x| instantiate(x, env, s)).collect())),
        Term::List(es, tail) => {
            let mut cur = match tail { None => RT::Nil, Some(t) => instantiate_tail(t, env, s) };
            // instantiate elements left to right so variable numbering follows reading order
            let elems: Vec<RT> = es.iter().map(|x| instantiate(x, env, s)).collect();
            for e in elems.into_iter().rev() { cur = RT::Cons(Rc::new(e), Rc::new(cur)); }
            cur
        }
    }
}

fn instantiate_tail(t: &Term, env: &mut HashMap<String, usize>, s: &mut Subst) -> RT { instantiate(t, env, s) }

// ------------------------------------------------------------- variant check

/// Are the two term tuples equal up to one bijection between their variables?
/// Floats compare with `==` semantics except that NaN equals NaN.
pub fn variant(a: &[Term], b: &[Term]) -> bool {
    if a.len() != b.len() { return false; }
    let mut ab: HashMap<String, String> = HashMap::new();
    let mut ba: HashMap<String, String> = HashMap::new();
    a.iter().zip(b.iter()).all(|(x, y)| variant1(x, y, &mut ab, &mut ba))
}

fn variant1(a: &Term, b: &Term, ab: &mut HashMap<String, String>, ba: &mut HashMap<String, String>) -> bool {
    match (a, b) {
        (Term::Var(x), Term::Var(y)) => {
            match (ab.get(x), ba.get(y)) {
                (None, None) => { ab.insert(x.clone(), y.clone()); ba.insert(y.clone(), x.clone()); true }
                (Some(y2), Some(x2)) => y2 == y && x2 == x,
                _ => false,
            }
        }
        (Term::Atom(x), Term::Atom(y)) => x == y,
        (Term::Int(x), Term::Int(y)) => x == y,
        (Term::Float(x), Term::Float(y)) => x == y || (x.is_nan() && y.is_nan()),
        (Term::Anon, Term::Anon) => true,
        (Term::Cmp(f, xs), Term::Cmp(g, ys)) | (Term::Func(f, xs), Term::Func(g, ys)) => {
            f == g && xs.len() == ys.len() && xs.iter().zip(ys.iter()).all(|(x, y)| variant1(x, y, ab, ba))
        }
        (Term::List(xs, xt), Term::List(ys, yt)) => {
            xs.len() == ys.len() && xs.iter().zip(ys.iter()).all(|(x, y)| variant1(x, y, ab, ba))
                && match (xt, yt) { (None, None) => true, (Some(x), Some(y)) => variant1(x, y, ab, ba), _ => false }
        }
        _ => false,
    }
}

/// Equality modulo the wildcard: `$_` on either side matches any subterm.
pub fn equal_mod_anon(a: &Term, b: &Term) -> bool {
    match (a, b) {
        (Term::Anon, _) | (_, Term::Anon) => true,
        (Term::Var(x), Term::Var(y)) => x == y,
        (Term::Atom(x), Term::Atom(y)) => x == y,
        (Term::Int(x), Term::Int(y)) => x == y,
        (Term::Float(x), Term::Float(y)) => x == y || (x.is_nan() && y.is_nan()),
        (Term::Cmp(f, xs), Term::Cmp(g, ys)) | (Term::Func(f, xs), Term::Func(g, ys)) =>
            f == g && xs.len() == ys.len() && xs.iter().zip(ys.iter()).all(|(x, y)| equal_mod_anon(x, y)),
        (Term::List(xs, xt), Term::List(ys, yt)) => {
            // align element-wise; a wildcard tail absorbs the rest
            let n = xs.len().min(ys.len());
            if !xs[..n].iter().zip(ys[..n].iter()).all(|(x, y)| equal_mod_anon(x, y)) { return false; }
            let rx = Term::List(xs[n..].to_vec(), xt.clone());
            let ry = Term::List(ys[n..].to_vec(), yt.clone());
            match (&rx, &ry) {
                (Term::List(a, None), Term::List(b, None)) => a.is_empty() && b.is_empty(),
                (Term::List(a, Some(t)), other) if a.is_empty() => **t == Term::Anon || match other {
                    Term::List(b, Some(u)) if b.is_empty() => equal_mod_anon(t, u),
                    _ => false,
                },
                (other, Term::List(b, Some(u))) if b.is_empty() => **u == Term::Anon || match other {
                    Term::List(a, Some(t)) if a.is_empty() => equal_mod_anon(t, u),
                    _ => false,
                },
                _ => false,
            }
        }
        _ => false,
    }
}
