//! ast -> engine values (through the documented public API) and back.

use crate::ast::*;
use std::collections::HashMap;
use suiron::Unifiable as U;
use suiron::{BuiltInPredicate, Operator};

/// How variables get their ids when building engine terms.
pub enum Ids<'a> {
    /// id 0 everywhere (knowledge-base form; the engine renames on fetch)
    Zero,
    /// fixed map name -> id (direct unify calls)
    Map(&'a HashMap<String, usize>),
}

fn var_id(ids: &Ids, name: &str) -> usize {
    match ids {
        Ids::Zero => 0,
        Ids::Map(m) => *m.get(name).unwrap_or_else(|| panic!("harness: no id for {}", name)),
    }
}

pub fn empty_list() -> U {
    U::SLinkedList { term: Box::new(U::Nil), next: Box::new(U::Nil), count: 0, tail_var: false }
}

/// Builds a list node by node, to the exact shape `parse_linked_list` produces.
pub fn build_list(elems: Vec<U>, tail: Option<U>) -> U {
    let mut node = empty_list();
    let mut count = 0usize;
    if let Some(t) = tail {
        count += 1;
        node = U::SLinkedList { term: Box::new(t), next: Box::new(node), count, tail_var: true };
    }
    for e in elems.into_iter().rev() {
        count += 1;
        node = U::SLinkedList { term: Box::new(e), next: Box::new(node), count, tail_var: false };
    }
    node
}

pub fn to_engine(t: &Term, ids: &Ids) -> U {
    match t {
        Term::Atom(s) => U::Atom(s.clone()),
        Term::Int(i) => U::SInteger(*i),
        Term::Float(f) => U::SFloat(*f),
        Term::Var(n) => U::LogicVar { id: var_id(ids, n), name: n.clone() },
        Term::Anon => U::Anonymous,
        Term::Cmp(f, a) => {
            let mut v = vec![U::Atom(f.clone())];
            for x in a { v.push(to_engine(x, ids)); }
            U::SComplex(v)
        }
        Term::Func(f, a) => U::SFunction { name: f.clone(), terms: a.iter().map(|x| to_engine(x, ids)).collect() },
        Term::List(es, tail) => {
            let elems: Vec<U> = es.iter().map(|x| to_engine(x, ids)).collect();
            match tail {
                None => build_list(elems, None),
                Some(t) => match &**t {
                    // a literal list tail is only representable spliced
                    Term::List(..) => {
                        let n = Term::List(es.clone(), tail.clone()).normalise();
                        if let Term::List(es2, t2) = &n {
                            let elems2: Vec<U> = es2.iter().map(|x| to_engine(x, ids)).collect();
                            build_list(elems2, t2.as_ref().map(|x| to_engine(x, ids)))
                        } else { unreachable!() }
                    }
                    other => build_list(elems, Some(to_engine(other, ids))),
                },
            }
        }
    }
}

pub fn goal_to_engine(g: &Goal, ids: &Ids) -> suiron::Goal {
    let bip = |name: &str, terms: Option<Vec<U>>| suiron::Goal::BuiltInGoal(BuiltInPredicate::new(name.to_string(), terms));
    match g {
        Goal::Call(n, a) => {
            let mut v = vec![U::Atom(n.clone())];
            for x in a { v.push(to_engine(x, ids)); }
            suiron::Goal::ComplexGoal(U::SComplex(v))
        }
        Goal::And(gs) => suiron::Goal::OperatorGoal(Operator::And(gs.iter().map(|x| goal_to_engine(x, ids)).collect())),
        Goal::Or(gs) => suiron::Goal::OperatorGoal(Operator::Or(gs.iter().map(|x| goal_to_engine(x, ids)).collect())),
        Goal::Not(x) => suiron::Goal::OperatorGoal(Operator::Not(vec![goal_to_engine(x, ids)])),
        Goal::Time(x) => suiron::Goal::OperatorGoal(Operator::Time(vec![goal_to_engine(x, ids)])),
        Goal::Unify(a, b) => bip("unify", Some(vec![to_engine(a, ids), to_engine(b, ids)])),
        Goal::Compare(o, a, b) => bip(o.functor(), Some(vec![to_engine(a, ids), to_engine(b, ids)])),
        Goal::BuiltIn(n, a) => bip(n, Some(a.iter().map(|x| to_engine(x, ids)).collect())),
        Goal::Nl => bip("nl", None),
        Goal::Cut => bip("!", None),
        Goal::Fail => bip("fail", None),
    }
}

pub fn clause_to_engine(c: &Clause) -> suiron::Rule {
    let head = to_engine(&Term::Cmp(c.name.clone(), c.args.clone()), &Ids::Zero);
    match &c.body {
        None => suiron::make_fact(head),
        Some(b) => suiron::make_rule(head, goal_to_engine(b, &Ids::Zero)),
    }
}

pub fn build_kb(clauses: &[Clause]) -> suiron::KnowledgeBase {
    let mut kb = suiron::KnowledgeBase::new();
    let rules: Vec<suiron::Rule> = clauses.iter().map(clause_to_engine).collect();
    suiron::add_rules(&mut kb, rules);
    kb
}

// ------------------------------------------------------------------ decoding

/// Structural facts collected while decoding (for well-formedness checks).
#[derive(Default, Debug, Clone)]
pub struct Shape {
    pub problems: Vec<String>,
}

/// Name used for a decoded engine variable: keeps the id so distinct variables stay distinct.
pub fn evar_name(id: usize, name: &str) -> String { format!("{}#{}", name, id) }

/// Lenient decoder: never panics on odd shapes, records problems in `shape`.
pub fn from_engine(u: &U, shape: &mut Shape) -> Term {
    match u {
        U::Nil => { shape.problems.push("bare Nil term".into()); Term::Atom("<Nil>".into()) }
        U::Anonymous => Term::Anon,
        U::Atom(s) => Term::Atom(s.clone()),
        U::SFloat(f) => Term::Float(*f),
        U::SInteger(i) => Term::Int(*i),
        U::LogicVar { id, name } => Term::Var(evar_name(*id, name)),
        U::SComplex(v) => {
            if v.is_empty() { shape.problems.push("empty SComplex".into()); return Term::Atom("<empty complex>".into()); }
            let f = match &v[0] { U::Atom(s) => s.clone(), other => { shape.problems.push("functor not an atom".into()); format!("{}", other) } };
            Term::Cmp(f, v[1..].iter().map(|x| from_engine(x, shape)).collect())
        }
        U::SFunction { name, terms } => Term::Func(name.clone(), terms.iter().map(|x| from_engine(x, shape)).collect()),
        U::SLinkedList { .. } => decode_list(u, shape),
    }
}

fn decode_list(u: &U, shape: &mut Shape) -> Term {
    // collect nodes
    let mut nodes: Vec<(&U, usize, bool)> = vec![];
    let mut cur = u;
    let mut terminated = false;
    loop {
        match cur {
            U::SLinkedList { term, next, count, tail_var } => {
                if **term == U::Nil {
                    // terminator (or a malformed "Nil element")
                    if !(**next == U::Nil && *count == 0 && !*tail_var) {
                        shape.problems.push(format!("node with Nil term is not the terminator (count={}, tail_var={}, next is {})",
                            count, tail_var, if **next == U::Nil { "Nil" } else { "a node" }));
                    }
                    terminated = true;
                    break;
                }
                nodes.push((&**term, *count, *tail_var));
                cur = &**next;
            }
            U::Nil => break,
            other => { shape.problems.push(format!("list link is not a node: {}", other)); break; }
        }
    }
    if !terminated { shape.problems.push("list does not end in the terminator node".into()); }
    let n = nodes.len();
    let mut elems = vec![];
    let mut tail: Option<Box<Term>> = None;
    for (i, (t, count, tv)) in nodes.iter().enumerate() {
        if *count != n - i { shape.problems.push(format!("count {} at node {} of {}", count, i, n)); }
        if *tv {
            if i != n - 1 { shape.problems.push("tail_var on a non-last node".into()); }
            tail = Some(Box::new(from_engine(t, shape)));
        } else {
            elems.push(from_engine(t, shape));
        }
    }
    Term::List(elems, tail).normalise()
}

/// Strict structural check of a list as *written* (tail must be a variable or `$_`).
pub fn wf_problems(u: &U) -> Vec<String> {
    let mut shape = Shape::default();
    check_wf(u, &mut shape);
    shape.problems
}

fn check_wf(u: &U, shape: &mut Shape) {
    match u {
        U::SComplex(v) => for x in v { check_wf(x, shape); },
        U::SFunction { terms, .. } => for x in terms { check_wf(x, shape); },
        U::SLinkedList { .. } => {
            let _ = decode_list(u, shape);
            let mut cur = u;
            while let U::SLinkedList { term, next, tail_var, .. } = cur {
                if *tail_var {
                    match &**term {
                        U::LogicVar { .. } | U::Anonymous => {}
                        other => shape.problems.push(format!("tail_var set on non-variable {}", other)),
                    }
                }
                if **term != U::Nil { check_wf(term, shape); }
                cur = &**next;
            }
        }
        _ => {}
    }
}

pub fn goal_from_engine(g: &suiron::Goal, shape: &mut Shape) -> Result<Goal, String> {
    match g {
        suiron::Goal::ComplexGoal(u) => match from_engine(u, shape) {
            Term::Cmp(f, a) => Ok(Goal::Call(f, a)),
            other => Err(format!("complex goal holds {}", other)),
        },
        suiron::Goal::OperatorGoal(op) => match op {
            Operator::And(gs) => Ok(Goal::And(gs.iter().map(|x| goal_from_engine(x, shape)).collect::<Result<_, _>>()?)),
            Operator::Or(gs) => Ok(Goal::Or(gs.iter().map(|x| goal_from_engine(x, shape)).collect::<Result<_, _>>()?)),
            Operator::Not(gs) => { if gs.len() != 1 { return Err("not/1 arity".into()); } Ok(Goal::Not(Box::new(goal_from_engine(&gs[0], shape)?))) }
            Operator::Time(gs) => { if gs.len() != 1 { return Err("time/1 arity".into()); } Ok(Goal::Time(Box::new(goal_from_engine(&gs[0], shape)?))) }
        },
        suiron::Goal::BuiltInGoal(b) => {
            let terms: Vec<Term> = match &b.terms { Some(ts) => ts.iter().map(|x| from_engine(x, shape)).collect(), None => vec![] };
            let two = |ts: Vec<Term>| -> Result<(Term, Term), String> {
                if ts.len() != 2 { return Err(format!("{} needs 2 args", b.functor)); }
                let mut it = ts.into_iter(); Ok((it.next().unwrap(), it.next().unwrap()))
            };
            match b.functor.as_str() {
                "unify" => { let (x, y) = two(terms)?; Ok(Goal::Unify(x, y)) }
                "equal" => { let (x, y) = two(terms)?; Ok(Goal::Compare(CmpOp::Eq, x, y)) }
                "less_than" => { let (x, y) = two(terms)?; Ok(Goal::Compare(CmpOp::Lt, x, y)) }
                "less_than_or_equal" => { let (x, y) = two(terms)?; Ok(Goal::Compare(CmpOp::Le, x, y)) }
                "greater_than" => { let (x, y) = two(terms)?; Ok(Goal::Compare(CmpOp::Gt, x, y)) }
                "greater_than_or_equal" => { let (x, y) = two(terms)?; Ok(Goal::Compare(CmpOp::Ge, x, y)) }
                "nl" => Ok(Goal::Nl),
                "!" => Ok(Goal::Cut),
                "fail" => Ok(Goal::Fail),
                other => Ok(Goal::BuiltIn(other.to_string(), terms)),
            }
        }
        suiron::Goal::Nil => Err("Goal::Nil".into()),
    }
}

/// Replace decoded engine variable names (`$X#7`) by the bare name (`$X`) -- "strip ids".
pub fn strip_ids(t: &Term) -> Term {
    t.map_vars(&mut |n: &str| Term::Var(n.split('#').next().unwrap().to_string()))
}

/// The harness's own resolver over an engine substitution set (cycle-guarded; does not use
/// the engine's replace_variables, which may not terminate on a cyclic set).
pub fn resolve_engine(u: &U, ss: &suiron::SubstitutionSet, fuel: &mut usize) -> Term {
    resolve_engine_raw(u, ss, fuel).normalise()
}

fn resolve_engine_raw(u: &U, ss: &suiron::SubstitutionSet, fuel: &mut usize) -> Term {
    if *fuel == 0 { return Term::Atom("<cyclic>".into()); }
    *fuel -= 1;
    match u {
        U::Nil => Term::Atom("<Nil>".into()),
        U::Anonymous => Term::Anon,
        U::Atom(s) => Term::Atom(s.clone()),
        U::SFloat(f) => Term::Float(*f),
        U::SInteger(i) => Term::Int(*i),
        U::LogicVar { id, name } => {
            if *id < ss.len() { if let Some(b) = &ss[*id] { return resolve_engine_raw(b, ss, fuel); } }
            Term::Var(evar_name(*id, name))
        }
        U::SComplex(v) => {
            let f = match v.first() { Some(U::Atom(s)) => s.clone(), Some(o) => format!("{}", o), None => "<empty>".into() };
            Term::Cmp(f, v.iter().skip(1).map(|x| resolve_engine_raw(x, ss, fuel)).collect())
        }
        U::SFunction { name, terms } => Term::Func(name.clone(), terms.iter().map(|x| resolve_engine_raw(x, ss, fuel)).collect()),
        U::SLinkedList { .. } => {
            let mut elems = vec![];
            let mut tail = None;
            let mut cur = u;
            loop {
                if *fuel == 0 { return Term::Atom("<cyclic>".into()); }
                *fuel -= 1;
                match cur {
                    U::SLinkedList { term, next, tail_var, .. } => {
                        if **term == U::Nil { break; }
                        if *tail_var { tail = Some(Box::new(resolve_engine_raw(term, ss, fuel))); break; }
                        elems.push(resolve_engine_raw(term, ss, fuel));
                        cur = &**next;
                    }
                    _ => break,
                }
            }
            Term::List(elems, tail)
        }
    }
}

/// Does following variable->variable bindings from any index come back to it?
pub fn alias_cycle(ss: &suiron::SubstitutionSet) -> Option<usize> {
    for start in 0..ss.len() {
        let mut cur = start;
        let mut steps = 0;
        loop {
            match &ss[cur] {
                Some(b) => match &**b {
                    U::LogicVar { id, .. } => {
                        if *id == start { return Some(start); }
                        if *id >= ss.len() { break; }
                        cur = *id;
                        steps += 1;
                        if steps > ss.len() { return Some(start); }
                    }
                    _ => break,
                },
                None => break,
            }
        }
    }
    None
}
