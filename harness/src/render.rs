//! Reference printer: ast -> Suiron source text. `canonical` is the text the engine's
//! Display is documented to produce; the other options produce accepted variants.

use crate::ast::*;

#[derive(Clone, Copy, Debug, Default)]
pub struct Style {
    /// `$X < 3` instead of `less_than($X, 3)`
    pub infix_compare: bool,
    /// `$X + 3` instead of `add($X, 3)` (binary arithmetic only, as operand of = or a comparison)
    pub infix_arith: bool,
    /// `foo` instead of `foo()` for zero-arity goals and facts
    pub bare_zero_arity: bool,
    /// atoms written between double quotes
    pub quote_atoms: bool,
    /// no blank after commas inside argument lists
    pub tight_commas: bool,
    /// parentheses also around a conjunction inside a disjunction (redundant: `,` binds tighter than `;`)
    pub redundant_parens: bool,
}

pub const CANON: Style = Style { infix_compare: false, infix_arith: false, bare_zero_arity: false, quote_atoms: false, tight_commas: false, redundant_parens: false };

/// Names with a fixed meaning as goals: never usable as user predicate names in text.
pub const RESERVED: [&str; 22] = ["print", "append", "functor", "include", "exclude", "print_list", "unify", "equal", "less_than", "less_than_or_equal",
    "greater_than", "greater_than_or_equal", "count", "fail", "nl", "!", "not", "time", "add", "subtract", "multiply", "divide"];

pub fn float_text(f: f64) -> String {
    // plain decimal notation with a decimal point (the parser has no exponent syntax)
    if f == f.trunc() && f.abs() < 1e300 && f.is_finite() { format!("{:.1}", f) } else { format!("{}", f) }
}

pub fn term(t: &Term, st: &Style) -> String {
    let sep = if st.tight_commas { "," } else { ", " };
    match t {
        Term::Atom(s) => if st.quote_atoms { format!("\"{}\"", s) } else { s.clone() },
        Term::Int(i) => format!("{}", i),
        Term::Float(f) => float_text(*f),
        Term::Var(n) => n.clone(),
        Term::Anon => "$_".to_string(),
        Term::Cmp(f, a) => format!("{}({})", f, a.iter().map(|x| term(x, st)).collect::<Vec<_>>().join(sep)),
        Term::Func(f, a) => {
            if st.infix_arith && a.len() == 2 {
                let op = match f.as_str() { "add" => Some("+"), "subtract" => Some("-"), "multiply" => Some("*"), "divide" => Some("/"), _ => None };
                if let Some(op) = op { return format!("{} {} {}", term(&a[0], st), op, term(&a[1], st)); }
            }
            format!("{}({})", f, a.iter().map(|x| term(x, st)).collect::<Vec<_>>().join(sep))
        }
        Term::List(es, tail) => {
            let mut s = format!("[{}", es.iter().map(|x| term(x, st)).collect::<Vec<_>>().join(sep));
            if let Some(t) = tail { s.push_str(&format!(" | {}", term(t, st))); }
            s.push(']');
            s
        }
    }
}

pub fn goal(g: &Goal, st: &Style) -> String {
    let sep = if st.tight_commas { "," } else { ", " };
    let args = |a: &[Term]| a.iter().map(|x| term(x, st)).collect::<Vec<_>>().join(sep);
    match g {
        Goal::Call(n, a) => if a.is_empty() && st.bare_zero_arity { n.clone() } else { format!("{}({})", n, args(a)) },
        Goal::BuiltIn(n, a) => format!("{}({})", n, args(a)),
        Goal::And(gs) | Goal::Or(gs) => {
            let s = if matches!(g, Goal::And(_)) { ", " } else { "; " };
            let outer_is_or = matches!(g, Goal::Or(_));
            gs.iter().map(|x| match x {
                // a conjunction inside a disjunction needs no parentheses; every other nesting does
                Goal::And(_) if outer_is_or && !st.redundant_parens => goal(x, st),
                Goal::And(_) | Goal::Or(_) => format!("({})", goal(x, st)),
                _ => goal(x, st),
            }).collect::<Vec<_>>().join(s)
        }
        Goal::Not(x) => format!("not({})", goal(x, st)),
        Goal::Time(x) => format!("time({})", goal(x, st)),
        Goal::Unify(a, b) => format!("{} = {}", term(a, st), term(b, st)),
        Goal::Compare(o, a, b) => if st.infix_compare { format!("{} {} {}", term(a, st), o.infix(), term(b, st)) } else { format!("{}({}{}{})", o.functor(), term(a, st), sep, term(b, st)) },
        Goal::Nl => "nl".to_string(),
        Goal::Cut => "!".to_string(),
        Goal::Fail => "fail".to_string(),
    }
}

pub fn head(c: &Clause, st: &Style) -> String {
    let sep = if st.tight_commas { "," } else { ", " };
    if c.args.is_empty() && st.bare_zero_arity { c.name.clone() }
    else { format!("{}({})", c.name, c.args.iter().map(|x| term(x, st)).collect::<Vec<_>>().join(sep)) }
}

pub fn clause(c: &Clause, st: &Style) -> String {
    match &c.body {
        None => format!("{}.", head(c, st)),
        Some(b) => format!("{} :- {}.", head(c, st), goal(b, st)),
    }
}
