//! fd-level capture of the process's stdout (the engine prints with `print!`).
//! fd 1 is redirected to a memfd for the life of the worker; the harness's own
//! reporting goes to the saved original fd or to files.

use std::io::Write;
use std::sync::atomic::{AtomicI32, Ordering};

static SAVED_FD: AtomicI32 = AtomicI32::new(-1);
static MEM_FD: AtomicI32 = AtomicI32::new(-1);

pub fn start() {
    if MEM_FD.load(Ordering::SeqCst) >= 0 { return; }
    let _ = std::io::stdout().flush();
    unsafe {
        let saved = libc::dup(1);
        let name = b"sverif-stdout\0";
        let mfd = libc::memfd_create(name.as_ptr() as *const libc::c_char, 0);
        assert!(saved >= 0 && mfd >= 0, "capture: cannot create memfd");
        assert!(libc::dup2(mfd, 1) >= 0);
        SAVED_FD.store(saved, Ordering::SeqCst);
        MEM_FD.store(mfd, Ordering::SeqCst);
    }
}

pub fn active() -> bool { MEM_FD.load(Ordering::SeqCst) >= 0 }

/// Everything written to stdout since the last call (lossy UTF-8).
pub fn take() -> String {
    let mfd = MEM_FD.load(Ordering::SeqCst);
    if mfd < 0 { return String::new(); }
    let _ = std::io::stdout().flush();
    unsafe {
        let size = libc::lseek(mfd, 0, libc::SEEK_END);
        if size <= 0 { return String::new(); }
        let mut buf = vec![0u8; size as usize];
        let mut got = 0usize;
        while got < buf.len() {
            let n = libc::pread(mfd, buf[got..].as_mut_ptr() as *mut libc::c_void, buf.len() - got, got as libc::off_t);
            if n <= 0 { break; }
            got += n as usize;
        }
        buf.truncate(got);
        // reset the file: fd 1 shares the offset with mfd (dup2), so seek after truncating
        libc::ftruncate(mfd, 0);
        libc::lseek(mfd, 0, libc::SEEK_SET);
        String::from_utf8_lossy(&buf).into_owned()
    }
}

/// Write to the real stdout of the process (bypassing the capture).
pub fn real_stdout(s: &str) {
    let saved = SAVED_FD.load(Ordering::SeqCst);
    if saved < 0 {
        print!("{}", s);
        let _ = std::io::stdout().flush();
        return;
    }
    let bytes = s.as_bytes();
    let mut off = 0;
    unsafe {
        while off < bytes.len() {
            let n = libc::write(saved, bytes[off..].as_ptr() as *const libc::c_void, bytes.len() - off);
            if n <= 0 { break; }
            off += n as usize;
        }
    }
}
