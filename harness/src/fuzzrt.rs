//! Run-time for the coverage-guided (libFuzzer) targets in /verif/fuzz.
//!
//! Two entry functions, both with the semantic oracle *inside* the target:
//!   * `run_prop(data)`  - the fuzzer's bytes are the choice sequence of the property named
//!     by $SVERIF_PROP: exactly the decoders and oracles of the proptest tier, but mutated and
//!     selected by coverage feedback over the instrumented engine instead of drawn at random;
//!   * `run_text(data)`  - C18 only: the bytes are the source text itself (lossy UTF-8), fed to
//!     all nine parser entry points under the no-panic oracle.
//! A violation writes `$SVERIF_FUZZ_OUT/fail-<pid>.json` (failure + the input bytes) and aborts,
//! so libFuzzer stores the input as a crash artifact; everything else returns normally.
//! Statistics (cases, classes, non-trivial fingerprints, samples) are flushed to
//! `$SVERIF_FUZZ_OUT/stats-<pid>.json` every 256 cases and at exit, and merged by `check`.

use crate::choice::*;
use crate::driver::Property;
use crate::report::*;
use serde_json::json;
use std::cell::RefCell;

struct State {
    prop: Box<dyn Property>,
    rep: Report,
    known: Vec<KnownFinding>,
    out_dir: String,
    only_sig: Option<String>,
    since_flush: u64,
    discards: u64,
}

thread_local! {
    static STATE: RefCell<Option<State>> = RefCell::new(None);
}

fn init() -> State {
    let id = std::env::var("SVERIF_PROP").unwrap_or_else(|_| "C18".to_string());
    let prop = crate::props::by_id(&id).unwrap_or_else(|| { eprintln!("fuzzrt: unknown property {}", id); std::process::exit(3) });
    let verif = std::env::var("VERIF_DIR").unwrap_or_else(|_| "/verif".to_string());
    let out_dir = std::env::var("SVERIF_FUZZ_OUT").unwrap_or_else(|_| format!("{}/work/fuzz-out", verif));
    let _ = std::fs::create_dir_all(&out_dir);
    let strict = std::env::var("SVERIF_STRICT").is_ok();
    let known = if strict { vec![] } else { load_known(&format!("{}/known_findings.json", verif)) };
    crate::capture::start();
    extern "C" fn at_exit() { flush_stats(); }
    unsafe { libc::atexit(at_exit); }
    let mut rep = Report::new();
    rep.sample_cap = 4;
    State { prop, rep, known, out_dir, only_sig: std::env::var("SVERIF_ONLY_SIG").ok(), since_flush: 0, discards: 0 }
}

fn flush_stats() {
    // try_with: at process exit the thread-local may already be gone
    let _ = STATE.try_with(|st| {
        if let Ok(mut g) = st.try_borrow_mut() {
            if let Some(s) = g.as_mut() {
                let mut v = s.rep.to_json();
                let o = v.as_object_mut().unwrap();
                // fingerprints are capped so the file stays small; the count is exact
                o.insert("nontrivial_hashes".into(), json!(s.rep.nontrivial.iter().take(200_000).map(|h| format!("{:016x}", h)).collect::<Vec<_>>()));
                o.insert("pid".into(), json!(std::process::id()));
                let path = format!("{}/stats-{}.json", s.out_dir, std::process::id());
                let tmp = format!("{}.tmp", path);
                if std::fs::write(&tmp, v.to_string()).is_ok() { let _ = std::fs::rename(&tmp, &path); }
                s.since_flush = 0;
            }
        }
    });
}

fn handle(result: CaseResult, data: &[u8], family: &str) {
    let mut fatal: Option<Failure> = None;
    STATE.with(|st| {
        let mut g = st.borrow_mut();
        let s = g.as_mut().unwrap();
        s.rep.eval();
        s.since_flush += 1;
        match result {
            CaseResult::Pass => {}
            CaseResult::Discard(why) => { s.rep.discard(&why); s.discards += 1; }
            CaseResult::Fail(f) => {
                let id = s.prop.id();
                if let Some(k) = s.known.iter().find(|k| k.property == id && f.signature.contains(&k.signature)) {
                    *s.rep.known_hits.entry(k.signature.clone()).or_insert(0) += 1;
                } else if s.only_sig.as_ref().map_or(true, |o| *o == f.signature) {
                    let body = json!({"property": id, "family": family, "bytes": data, "choices": [],
                        "kind": f.kind, "signature": f.signature, "message": f.message, "case": f.case});
                    let _ = std::fs::write(format!("{}/fail-{}.json", s.out_dir, std::process::id()), body.to_string());
                    fatal = Some(f);
                }
            }
        }
    });
    let need_flush = STATE.with(|st| st.borrow().as_ref().map_or(false, |s| s.since_flush >= 256));
    if need_flush || fatal.is_some() { flush_stats(); }
    if let Some(f) = fatal {
        eprintln!("SVERIF-FUZZ violation {}: {}\ncase:\n{}", f.signature, f.message, f.case);
        std::process::abort();
    }
}

fn ensure_init() {
    STATE.with(|st| { if st.borrow().is_none() { let s = init(); *st.borrow_mut() = Some(s); } });
}

/// libFuzzer entry: bytes are a choice sequence for property $SVERIF_PROP.
pub fn run_prop(data: &[u8]) {
    ensure_init();
    let r = STATE.with(|st| {
        let mut g = st.borrow_mut();
        let s = g.as_mut().unwrap();
        let mut src = ByteSrc::new(data);
        let State { prop, rep, .. } = s;
        prop.check(&mut src, rep)
    });
    handle(r, data, "bytes");
}

/// libFuzzer entry for C18: bytes are source text.
pub fn run_text(data: &[u8]) {
    ensure_init();
    let text = String::from_utf8_lossy(data).into_owned();
    let r = STATE.with(|st| {
        let mut g = st.borrow_mut();
        let s = g.as_mut().unwrap();
        let p = crate::props::parsers::ParserProp { id: "C18", aspect: crate::props::parsers::PAspect::NoPanic };
        p.no_panic_text(&text, "fuzzer-text", &mut s.rep)
    });
    handle(r, data, "text");
}

/// Replay of a saved fuzz input by the ordinary binary (`sverif replay`).
pub fn replay_bytes(prop: &dyn Property, family: &str, data: &[u8], rep: &mut Report) -> CaseResult {
    if family == "text" {
        let text = String::from_utf8_lossy(data).into_owned();
        let p = crate::props::parsers::ParserProp { id: "C18", aspect: crate::props::parsers::PAspect::NoPanic };
        p.no_panic_text(&text, "fuzzer-text", rep)
    } else {
        let mut src = ByteSrc::new(data);
        prop.check(&mut src, rep)
    }
}
