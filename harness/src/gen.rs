//! Generators: deterministic decoders from a choice source to terms, goals, programs.

use crate::ast::*;
use crate::ast_parse::parse_clauses;
use crate::choice::*;

// ------------------------------------------------------------------ terms (unification universe)

pub struct TermCfg {
    pub vars: Vec<&'static str>,
    pub atoms: Vec<&'static str>,
    pub ints: Vec<i64>,
    pub floats: Vec<f64>,
    pub anon: bool,
    pub lists: bool,
    pub cmps: bool,
    pub max_depth: u32,
}

pub fn unify_universe() -> TermCfg {
    TermCfg {
        vars: vec!["$A", "$B", "$C", "$D", "$E", "$F"],
        atoms: vec!["a", "b", "c"],
        ints: vec![0, 1, -1],
        floats: vec![0.5, 1.0, -0.0, 0.0, 0.3, 0.30000000000000004],
        anon: true, lists: true, cmps: true, max_depth: 3,
    }
}

pub fn gen_const(s: &mut dyn Src, cfg: &TermCfg) -> Term {
    match weighted(s, &[4, 2, if cfg.floats.is_empty() { 0 } else { 1 }]) {
        0 => Term::atom(pick(s, &cfg.atoms)),
        1 => Term::Int(pick(s, &cfg.ints)),
        _ => Term::Float(pick(s, &cfg.floats)),
    }
}

pub fn gen_term(s: &mut dyn Src, cfg: &TermCfg, depth: u32) -> Term {
    let leaf_only = depth >= cfg.max_depth;
    // 0 const, 1 var, 2 anon, 3 cmp, 4 list
    let w = [4,
             if cfg.vars.is_empty() { 0 } else { 4 },
             if cfg.anon { 1 } else { 0 },
             if cfg.cmps && !leaf_only { 3 } else { 0 },
             if cfg.lists && !leaf_only { 3 } else { 0 }];
    match weighted(s, &w) {
        0 => gen_const(s, cfg),
        1 => Term::var(pick(s, &cfg.vars)),
        2 => Term::Anon,
        3 => {
            // f/1, f/2, g/2, h/0, and rarely a wide term k/3..k/9
            if chance(s, 1, 16) { let n = 3 + s.draw(7); return Term::Cmp("k".into(), (0..n).map(|_| gen_term(s, cfg, depth + 1)).collect()); }
            match s.draw(4) {
                0 => Term::Cmp("f".into(), vec![gen_term(s, cfg, depth + 1)]),
                1 => Term::Cmp("f".into(), vec![gen_term(s, cfg, depth + 1), gen_term(s, cfg, depth + 1)]),
                2 => Term::Cmp("g".into(), vec![gen_term(s, cfg, depth + 1), gen_term(s, cfg, depth + 1)]),
                _ => Term::Cmp("h".into(), vec![]),
            }
        }
        _ => gen_list(s, cfg, depth),
    }
}

pub fn gen_list(s: &mut dyn Src, cfg: &TermCfg, depth: u32) -> Term {
    // usually 0-3 elements, rarely up to 20
    let n = if chance(s, 1, 16) { s.draw(21) } else { s.draw(4) } as usize;
    let mut es = vec![];
    for _ in 0..n { es.push(gen_term(s, cfg, depth + 1)); }
    // a tail needs at least one element in the surface syntax
    let tail = if n == 0 { None } else {
        match weighted(s, &[3, if cfg.vars.is_empty() { 0 } else { 2 }, if cfg.anon { 1 } else { 0 }]) {
            0 => None,
            1 => Some(Box::new(Term::var(pick(s, &cfg.vars)))),
            _ => Some(Box::new(Term::Anon)),
        }
    };
    Term::List(es, tail)
}

// ------------------------------------------------------------------ programs

#[derive(Clone, Copy, Debug, Default)]
pub struct Features {
    pub cut: bool,
    pub not: bool,
    pub output: bool,
    pub anon: bool,
    /// more variable/variable unifications and repeated head variables
    pub alias_heavy: bool,
}

const CVARS: [&str; 4] = ["$X", "$Y", "$Z", "$W"];
const ATOMS: [&str; 3] = ["a", "b", "c"];

/// What the generator believes about variables at a point of a conjunction.
#[derive(Clone, Default)]
struct Mode {
    num: Vec<String>,   // bound to a number
    atom: Vec<String>,  // bound to an atom
    list: Vec<String>,  // bound to a ground list
    any: Vec<String>,   // mentioned so far
}

impl Mode {
    fn add(v: &mut Vec<String>, n: &str) { if !v.iter().any(|x| x == n) { v.push(n.to_string()); } }
    fn ground_vars(&self) -> Vec<String> {
        let mut v = self.num.clone();
        for x in self.atom.iter().chain(self.list.iter()) { Mode::add(&mut v, x); }
        v
    }
    fn meet(&self, other: &Mode) -> Mode {
        let f = |a: &Vec<String>, b: &Vec<String>| a.iter().filter(|x| b.contains(x)).cloned().collect::<Vec<_>>();
        let mut any = self.any.clone();
        for x in &other.any { Mode::add(&mut any, x); }
        Mode { num: f(&self.num, &other.num), atom: f(&self.atom, &other.atom), list: f(&self.list, &other.list), any }
    }
}

pub struct PredSig { pub name: String, pub arity: usize }

pub struct GenCtx<'a> {
    pub feat: Features,
    /// user predicates this body may call
    pub callable: &'a [PredSig],
    pub has_num: bool,
    pub has_item: bool,
    pub has_lst: bool,
    pub has_pair: bool,
    /// the program has `open/1` facts: facts whose variables occur only inside a structure
    pub has_open: bool,
}

fn small_const(s: &mut dyn Src) -> Term {
    match weighted(s, &[4, 3, 1]) {
        0 => Term::atom(pick(s, &ATOMS)),
        1 => Term::Int(s.draw(4) as i64),
        _ => Term::Float(pick(s, &[0.5, 1.5, 2.0, -1.25])),
    }
}

fn ground_list(s: &mut dyn Src, depth: u32) -> Term {
    let n = s.draw(4) as usize;
    let mut es = vec![];
    for _ in 0..n {
        if depth < 1 && chance(s, 1, 6) { es.push(ground_list(s, depth + 1)); }
        else if chance(s, 1, 8) { es.push(Term::Cmp("f".into(), vec![small_const(s)])); }
        else { es.push(small_const(s)); }
    }
    Term::List(es, None)
}

fn cvar(s: &mut dyn Src) -> String { pick(s, &CVARS).to_string() }

/// A head / call argument: constants, variables, lists with tails, small complex terms.
fn arg_term(s: &mut dyn Src, feat: &Features, depth: u32) -> Term {
    let w = [4, 5, if feat.anon { 1 } else { 0 }, if depth < 2 { 2 } else { 0 }, if depth < 2 { 3 } else { 0 }];
    match weighted(s, &w) {
        0 => small_const(s),
        1 => Term::Var(cvar(s)),
        2 => Term::Anon,
        3 => {
            let n = 1 + s.draw(2) as usize;
            Term::Cmp(pick(s, &["f", "g"]).to_string(), (0..n).map(|_| arg_term(s, feat, depth + 1)).collect())
        }
        _ => {
            let n = s.draw(3) as usize;
            let es: Vec<Term> = (0..n).map(|_| arg_term(s, feat, depth + 1)).collect();
            let tail = if n > 0 && chance(s, 2, 5) {
                if feat.anon && chance(s, 1, 5) { Some(Box::new(Term::Anon)) } else { Some(Box::new(Term::Var(cvar(s)))) }
            } else { None };
            Term::List(es, tail)
        }
    }
}

fn num_operand(s: &mut dyn Src, m: &Mode) -> Term {
    if !m.num.is_empty() && chance(s, 3, 5) { Term::Var(pick(s, &m.num)) }
    else if chance(s, 1, 4) { Term::Float(pick(s, &[0.5, 1.5, 2.0, -1.25])) }
    else { Term::Int(s.draw(6) as i64 - 1) }
}

fn ground_operand(s: &mut dyn Src, m: &Mode) -> Term {
    let g = m.ground_vars();
    if !g.is_empty() && chance(s, 3, 5) { Term::Var(pick(s, &g)) } else { small_const(s) }
}

fn list_operand(s: &mut dyn Src, m: &Mode) -> Term {
    if !m.list.is_empty() && chance(s, 1, 2) { Term::Var(pick(s, &m.list)) }
    else {
        // literal list whose elements may be bound variables, possibly with a bound tail
        let n = s.draw(4) as usize;
        let mut es = vec![];
        for _ in 0..n { es.push(if chance(s, 1, 5) { ground_list(s, 1) } else { ground_operand(s, m) }); }
        let tail = if n > 0 && !m.list.is_empty() && chance(s, 1, 3) { Some(Box::new(Term::Var(pick(s, &m.list)))) } else { None };
        Term::List(es, tail)
    }
}

fn fresh_or_any(s: &mut dyn Src, m: &Mode) -> String {
    // prefer a variable not yet mentioned (so the goal binds it)
    let unused: Vec<&&str> = CVARS.iter().filter(|v| !m.any.iter().any(|x| x == **v)).collect();
    if !unused.is_empty() && chance(s, 3, 4) { unused[s.draw(unused.len() as u32) as usize].to_string() } else { cvar(s) }
}

fn note_vars(m: &mut Mode, g: &Goal) {
    let mut v = vec![];
    g.vars(&mut v);
    for x in v { Mode::add(&mut m.any, &x); }
}

/// One non-control goal; updates the mode.
fn leaf_goal(s: &mut dyn Src, cx: &GenCtx, m: &mut Mode) -> Goal {
    // 0 base-call 1 user-call 2 unify 3 compare 4 arith 5 listbuiltin 6 functor 7 fail 8 output
    let w = [5,
             if cx.callable.is_empty() { 0 } else { 6 },
             if cx.feat.alias_heavy { 8 } else { 4 },
             3, 3, 3, 1, 1,
             if cx.feat.output { 5 } else { 0 }];
    let g = match weighted(s, &w) {
        0 => {
            // typed base facts: num/1, item/1, lst/1, pair/2
            let opts: Vec<u32> = vec![cx.has_num as u32 * 3, cx.has_item as u32 * 3, cx.has_lst as u32 * 2, cx.has_pair as u32 * 2, 1, cx.has_open as u32 * 2];
            match weighted(s, &opts) {
                0 => { let v = fresh_or_any(s, m); Mode::add(&mut m.num, &v); Goal::Call("num".into(), vec![Term::Var(v)]) }
                1 => { let v = fresh_or_any(s, m); Mode::add(&mut m.atom, &v); Goal::Call("item".into(), vec![Term::Var(v)]) }
                2 => { let v = fresh_or_any(s, m); Mode::add(&mut m.list, &v); Goal::Call("lst".into(), vec![Term::Var(v)]) }
                3 => {
                    let v = fresh_or_any(s, m); let w2 = fresh_or_any(s, m);
                    if v != w2 { Mode::add(&mut m.atom, &v); Mode::add(&mut m.num, &w2); }
                    Goal::Call("pair".into(), vec![Term::Var(v), Term::Var(w2)])
                }
                5 => { let v = fresh_or_any(s, m); Goal::Call("open".into(), vec![Term::Var(v)]) }
                _ => Goal::Call("num".into(), vec![small_const(s)]),
            }
        }
        1 => {
            let p = &cx.callable[s.draw(cx.callable.len() as u32) as usize];
            let args: Vec<Term> = (0..p.arity).map(|_| arg_term(s, &cx.feat, 0)).collect();
            Goal::Call(p.name.clone(), args)
        }
        2 => {
            if cx.feat.alias_heavy && chance(s, 3, 5) {
                Goal::Unify(Term::Var(cvar(s)), Term::Var(cvar(s)))
            } else {
                let a = arg_term(s, &cx.feat, 0);
                let b = arg_term(s, &cx.feat, 0);
                // learn simple facts: $V = const / ground list
                if let Term::Var(v) = &a {
                    match &b {
                        Term::Int(_) | Term::Float(_) => Mode::add(&mut m.num, v),
                        Term::Atom(_) => Mode::add(&mut m.atom, v),
                        Term::List(..) if b.is_ground() => Mode::add(&mut m.list, v),
                        _ => {}
                    }
                }
                Goal::Unify(a, b)
            }
        }
        3 => {
            let op = pick(s, &CmpOp::ALL);
            let (a, b) = if chance(s, 1, 8) { (arg_term(s, &cx.feat, 1), arg_term(s, &cx.feat, 1)) }
                         else if chance(s, 1, 4) { (ground_operand(s, m), ground_operand(s, m)) }
                         else { (num_operand(s, m), num_operand(s, m)) };
            Goal::Compare(op, a, b)
        }
        4 => {
            let f = pick(s, &["add", "subtract", "multiply", "divide"]);
            let n = 1 + s.draw(3) as usize;
            let mut args: Vec<Term> = (0..n).map(|_| num_operand(s, m)).collect();
            if f == "divide" {
                // avoid literal integer zero divisors (outside the claim)
                for a in args.iter_mut().skip(1) { if *a == Term::Int(0) { *a = Term::Int(2); } }
            }
            let v = fresh_or_any(s, m);
            let fun = Term::Func(f.to_string(), args);
            let g = if chance(s, 1, 4) { Goal::Unify(fun, Term::Var(v.clone())) } else { Goal::Unify(Term::Var(v.clone()), fun) };
            Mode::add(&mut m.num, &v);
            g
        }
        5 => {
            match s.draw(4) {
                0 => {
                    let n = 1 + s.draw(3) as usize;
                    let mut args: Vec<Term> = (0..n).map(|_| if chance(s, 1, 2) { list_operand(s, m) } else { ground_operand(s, m) }).collect();
                    let v = fresh_or_any(s, m);
                    args.push(Term::Var(v.clone()));
                    Mode::add(&mut m.list, &v);
                    Goal::BuiltIn("append".into(), args)
                }
                1 => {
                    let l = list_operand(s, m);
                    let v = fresh_or_any(s, m);
                    Mode::add(&mut m.num, &v);
                    Goal::BuiltIn("count".into(), vec![l, Term::Var(v)])
                }
                k => {
                    let pat = match s.draw(4) { 0 => small_const(s), 1 => Term::Anon, 2 => Term::Cmp("f".into(), vec![Term::Anon]), _ => Term::Var(cvar(s)) };
                    let l = list_operand(s, m);
                    let v = fresh_or_any(s, m);
                    Goal::BuiltIn(if k == 2 { "include" } else { "exclude" }.into(), vec![pat, l, Term::Var(v)])
                }
            }
        }
        6 => {
            let t = Term::Cmp(pick(s, &["f", "g", "foo"]).to_string(), (0..s.draw(3)).map(|_| ground_operand(s, m)).collect());
            let fa = match s.draw(4) { 0 => Term::Var(fresh_or_any(s, m)), 1 => Term::atom("f"), 2 => Term::atom("f*"), _ => Term::atom("g") };
            if chance(s, 1, 2) { Goal::BuiltIn("functor".into(), vec![t, fa]) }
            else { let v = fresh_or_any(s, m); Mode::add(&mut m.num, &v); Goal::BuiltIn("functor".into(), vec![t, fa, Term::Var(v)]) }
        }
        7 => Goal::Fail,
        _ => {
            match weighted(s, &[5, 2, 2]) {
                0 => {
                    let k = s.draw(3) as usize;
                    if chance(s, 1, 2) {
                        // format string with k markers and k arguments
                        let mut fmt = String::from(pick(s, &["<", "v=", ""]));
                        for i in 0..k { if i > 0 { fmt.push('-'); } fmt.push_str("%s"); }
                        fmt.push_str(pick(s, &[">", ";", ""]));
                        if fmt.is_empty() { fmt.push('.'); }
                        let mut args = vec![Term::Atom(fmt)];
                        // usually as many arguments as markers; sometimes more (they are appended, as the repository's
                        // own test_format_for_print_pred shows) or fewer (an unfilled marker is replaced by nothing)
                        let nargs = match weighted(s, &[6, 1, 1]) { 0 => k, 1 => k + 1 + s.draw(2) as usize, _ => k.saturating_sub(1 + s.draw(2) as usize) };
                        for _ in 0..nargs { args.push(ground_operand(s, m)); }
                        // the format string may reach print through a bound variable ("showing each argument's bound value")
                        if chance(s, 1, 4) {
                            let fv = format!("$F{}", fnv(match &args[0] { Term::Atom(a) => a.as_str(), _ => "" }) % 1000);
                            let f = std::mem::replace(&mut args[0], Term::Var(fv.clone()));
                            Goal::And(vec![Goal::Unify(Term::Var(fv), f), Goal::BuiltIn("print".into(), args)])
                        } else { Goal::BuiltIn("print".into(), args) }
                    } else {
                        let mut args = vec![Term::atom(pick(s, &["p", "q:", "#"]))];
                        for _ in 0..k { args.push(ground_operand(s, m)); }
                        Goal::BuiltIn("print".into(), args)
                    }
                }
                1 => Goal::Nl,
                _ => {
                    // one in five: a list whose tail is bound to a list whose tail is bound again, two to four links
                    // ($P1 = [a | $P2], $P2 = [b | $P3], $P3 = [c], print_list($P1)) - what a recursive predicate builds
                    if chance(s, 1, 5) {
                        let links = 2 + s.draw(3) as usize;
                        let tag = s.draw(1000);
                        let name = |i: usize| format!("$P{}x{}", tag, i);
                        let mut goals = vec![];
                        let order_back = chance(s, 1, 2);
                        for i in 0..links {
                            let e = ground_operand(s, m);
                            let l = if i + 1 < links { Term::List(vec![e], Some(Box::new(Term::Var(name(i + 1))))) } else { Term::List(vec![e], None) };
                            goals.push(Goal::Unify(Term::Var(name(i)), l));
                        }
                        if order_back { goals.reverse(); }
                        let first = if chance(s, 1, 2) { Term::Var(name(0)) } else { Term::List(vec![ground_operand(s, m)], Some(Box::new(Term::Var(name(0))))) };
                        goals.push(Goal::BuiltIn("print_list".into(), vec![first]));
                        return Goal::And(goals);
                    }
                    // mostly one list; sometimes further list / non-list arguments in any order
                    let n = 1 + weighted(s, &[4, 2, 1]);
                    let mut args = vec![];
                    for i in 0..n {
                        if (i == 0 && !chance(s, 1, 4)) || chance(s, 1, 2) { args.push(list_operand(s, m)); } else { args.push(ground_operand(s, m)); }
                    }
                    Goal::BuiltIn("print_list".into(), args)
                }
            }
        }
    };
    note_vars(m, &g);
    g
}

fn conj(s: &mut dyn Src, cx: &GenCtx, m: &mut Mode, depth: u32, max_items: u32, in_not: bool) -> Goal {
    let n = 1 + s.draw(max_items);
    let mut items = vec![];
    for _ in 0..n { items.push(item(s, cx, m, depth, in_not)); }
    if items.len() == 1 { items.pop().unwrap() } else { Goal::And(items) }
}

fn item(s: &mut dyn Src, cx: &GenCtx, m: &mut Mode, depth: u32, in_not: bool) -> Goal {
    let deeper = depth < 2;
    // 0 leaf 1 or 2 not 3 cut 4 nested-and
    let w = [10,
             if deeper { 3 } else { 0 },
             if cx.feat.not && deeper && !in_not { 3 } else if cx.feat.not && deeper { 1 } else { 0 },
             if cx.feat.cut && !in_not { 3 } else { 0 },
             if deeper { 1 } else { 0 }];
    match weighted(s, &w) {
        0 => leaf_goal(s, cx, m),
        1 => {
            let nb = 2 + s.draw(2);
            let mut alts = vec![];
            let mut meet: Option<Mode> = None;
            for _ in 0..nb {
                let mut mb = m.clone();
                alts.push(conj(s, cx, &mut mb, depth + 1, 2, in_not));
                meet = Some(match meet { None => mb, Some(x) => x.meet(&mb) });
            }
            *m = meet.unwrap();
            Goal::Or(alts)
        }
        2 => {
            let mut mb = m.clone();
            let inner = conj(s, cx, &mut mb, depth + 1, 2, true);
            for x in &mb.any { Mode::add(&mut m.any, x); }
            // one in five: a double negation, not(not(G)) - succeeds once, without bindings, iff G has an answer
            if chance(s, 1, 5) { return Goal::Not(Box::new(Goal::Not(Box::new(inner)))); }
            Goal::Not(Box::new(inner))
        }
        3 => Goal::Cut,
        _ => conj(s, cx, m, depth + 1, 2, in_not),
    }
}

pub fn gen_body(s: &mut dyn Src, cx: &GenCtx, head_vars: &[String]) -> Goal {
    let mut m = Mode::default();
    for v in head_vars { Mode::add(&mut m.any, v); }
    conj(s, cx, &mut m, 0, 4, false)
}

fn base_facts(s: &mut dyn Src) -> (Vec<Clause>, bool, bool, bool, bool, bool) {
    let mut cl = vec![];
    let fact = |name: &str, args: Vec<Term>| Clause { name: name.to_string(), args, body: None };
    let nn = 1 + s.draw(4);
    for _ in 0..nn {
        let t = if chance(s, 1, 4) { Term::Float(pick(s, &[0.5, 1.5, 2.0, -1.25])) } else { Term::Int(s.draw(6) as i64 - 1) };
        cl.push(fact("num", vec![t]));
    }
    let ni = s.draw(4);
    for _ in 0..ni { cl.push(fact("item", vec![Term::atom(pick(s, &ATOMS))])); }
    let nl = s.draw(3);
    for _ in 0..nl { cl.push(fact("lst", vec![ground_list(s, 0)])); }
    let np = s.draw(3);
    for _ in 0..np { cl.push(fact("pair", vec![Term::atom(pick(s, &ATOMS)), Term::Int(s.draw(4) as i64)])); }
    // facts that leave the caller's variable bound to a structure with unbound variables inside
    let no = if chance(s, 1, 3) { 1 + s.draw(2) } else { 0 };
    for _ in 0..no {
        let t = match s.draw(6) {
            0 => Term::Cmp("f".into(), vec![Term::var("$X")]),
            1 => Term::List(vec![Term::var("$X"), Term::var("$Y")], None),
            2 => Term::Cmp("g".into(), vec![Term::var("$X"), Term::var("$X")]),
            3 => Term::List(vec![Term::var("$X")], Some(Box::new(Term::var("$Y")))),
            4 => Term::Cmp("g".into(), vec![Term::atom("a"), Term::var("$Y")]),
            _ => Term::Cmp("f".into(), vec![Term::List(vec![Term::var("$Z")], None)]),
        };
        cl.push(fact("open", vec![t]));
    }
    (cl, true, ni > 0, nl > 0, np > 0, no > 0)
}

const PNAMES: [&str; 5] = ["p", "q", "r", "s", "t"];

/// Family (i)/(iii): generated predicates. `recursive` allows calls to any predicate
/// (including itself); otherwise predicate i calls only predicates < i (stratified).
pub fn gen_program(s: &mut dyn Src, feat: Features, recursive: bool) -> Program {
    let (mut clauses, has_num, has_item, has_lst, has_pair, has_open) = base_facts(s);
    let npred = 1 + s.draw(4) as usize;
    let sigs: Vec<PredSig> = (0..npred).map(|i| PredSig { name: PNAMES[i].to_string(), arity: s.draw(4) as usize }).collect();
    for i in 0..npred {
        let ncl = 1 + s.draw(4);
        for _ in 0..ncl {
            let mut hf = feat;
            if feat.alias_heavy { hf.anon = feat.anon; }
            let args: Vec<Term> = (0..sigs[i].arity).map(|_| {
                if feat.alias_heavy && chance(s, 1, 2) { Term::Var(cvar(s)) } else { arg_term(s, &hf, 0) }
            }).collect();
            let is_fact = chance(s, 2, 5);
            let body = if is_fact { None } else {
                let callable: &[PredSig] = if recursive { &sigs[..] } else { &sigs[..i] };
                let cx = GenCtx { feat, callable, has_num, has_item, has_lst, has_pair, has_open };
                let mut hv = vec![];
                for a in &args { a.vars(&mut hv); }
                Some(gen_body(s, &cx, &hv))
            };
            clauses.push(Clause { name: sigs[i].name.clone(), args, body });
        }
    }
    let q = &sigs[npred - 1 - s.draw(npred.min(2) as u32) as usize];
    let qvars = ["$Q1", "$Q2", "$Q3", "$X"];
    let qargs: Vec<Term> = (0..q.arity).map(|i| {
        match weighted(s, &[6, 2, 1, 1]) {
            0 => Term::var(qvars[i.min(3)]),
            1 => small_const(s),
            2 => Term::var(qvars[0]),
            _ => { let f = Features { anon: false, ..feat }; arg_term(s, &f, 1).map_vars(&mut |n: &str| Term::Var(format!("$Q{}", n.trim_start_matches('$')))) }
        }
    }).collect();
    Program { clauses, qname: q.name.clone(), qargs }
}

// ------------------------------------------------------------------ recursive templates (family ii)

fn int_list(s: &mut dyn Src, max: u32) -> Term {
    let n = s.draw(max + 1) as usize;
    Term::List((0..n).map(|_| Term::Int(s.draw(5) as i64)).collect(), None)
}
fn atom_list(s: &mut dyn Src, max: u32) -> Term {
    let n = s.draw(max + 1) as usize;
    Term::List((0..n).map(|_| Term::atom(pick(s, &ATOMS))).collect(), None)
}

pub fn gen_template_program(s: &mut dyn Src, feat: Features) -> Program {
    let lib = "
        member($X, [$X | $_]).
        member($X, [$_ | $T]) :- member($X, $T).
        app([], $L, $L).
        app([$H | $T], $L, [$H | $R]) :- app($T, $L, $R).
        len([], 0).
        len([$_ | $T], $N) :- len($T, $M), $N = add($M, 1).
        rev([], $A, $A).
        rev([$H | $T], $A, $R) :- rev($T, [$H | $A], $R).
        sum([], 0).
        sum([$H | $T], $S) :- sum($T, $S1), $S = add($S1, $H).
        down(0).
        down($N) :- $N > 0, $M = subtract($N, 1), down($M).
        upto($N, $N).
        upto($I, $N) :- $I < $N, $J = add($I, 1), upto($J, $N).
        path($A, $B) :- edge($A, $B).
        path($A, $B) :- edge($A, $C), path($C, $B).
        last([$X], $X).
        last([$_ | $T], $X) :- last($T, $X).
        sel($X, [$X | $T], $T).
        sel($X, [$H | $T], [$H | $R]) :- sel($X, $T, $R).
    ";
    let mut clauses = parse_clauses(lib);
    // a generated DAG over 4 nodes
    let nodes = ["n1", "n2", "n3", "n4"];
    for i in 0..4 { for j in (i + 1)..4 { if chance(s, 1, 2) {
        clauses.push(Clause { name: "edge".into(), args: vec![Term::atom(nodes[i]), Term::atom(nodes[j])], body: None });
    } } }
    // optionally reorder clauses of one library predicate (still terminating for member/app/len on ground lists)
    if chance(s, 1, 4) {
        let k = s.draw(3) as usize;
        let name = ["member", "path", "sel"][k];
        let idx: Vec<usize> = clauses.iter().enumerate().filter(|(_, c)| c.name == name).map(|(i, _)| i).collect();
        if idx.len() == 2 { clauses.swap(idx[0], idx[1]); }
    }
    let (base, has_num, has_item, has_lst, has_pair, has_open) = base_facts(s);
    clauses.extend(base);
    // the query predicate: a generated rule combining template calls with generated goals
    let l1 = if chance(s, 1, 2) { int_list(s, 4) } else { atom_list(s, 4) };
    let l2 = int_list(s, 3);
    let tcall = |s: &mut dyn Src, l1: &Term, l2: &Term| -> Goal {
        match s.draw(11) {
            0 => Goal::Call("member".into(), vec![Term::var("$X"), l1.clone()]),
            1 => Goal::Call("app".into(), vec![Term::var("$X"), Term::var("$Y"), l1.clone()]),
            2 => Goal::Call("app".into(), vec![l1.clone(), l2.clone(), Term::var("$X")]),
            3 => Goal::Call("len".into(), vec![l1.clone(), Term::var("$Y")]),
            4 => Goal::Call("rev".into(), vec![l1.clone(), Term::list(vec![]), Term::var("$Z")]),
            5 => Goal::Call("sum".into(), vec![l2.clone(), Term::var("$W")]),
            6 => Goal::Call("down".into(), vec![Term::Int(s.draw(4) as i64)]),
            7 => Goal::Call("upto".into(), vec![Term::Int(0), Term::Int(s.draw(4) as i64)]),
            8 => Goal::Call("path".into(), vec![Term::atom("n1"), Term::var("$Y")]),
            9 => Goal::Call("last".into(), vec![l1.clone(), Term::var("$W")]),
            _ => Goal::Call("sel".into(), vec![Term::var("$X"), l1.clone(), Term::var("$Z")]),
        }
    };
    let sigs: Vec<PredSig> = vec![];
    let cx = GenCtx { feat, callable: &sigs, has_num, has_item, has_lst, has_pair, has_open };
    let nrules = 1 + s.draw(2);
    for _ in 0..nrules {
        let mut m = Mode::default();
        let mut items = vec![tcall(s, &l1, &l2)];
        note_vars(&mut m, &items[0]);
        let extra = s.draw(4);
        for _ in 0..extra {
            if chance(s, 1, 3) { let g = tcall(s, &l1, &l2); note_vars(&mut m, &g); items.push(g); }
            else { items.push(item(s, &cx, &mut m, 1, false)); }
        }
        let body = if items.len() == 1 { items.pop().unwrap() } else { Goal::And(items) };
        clauses.push(Clause { name: "main".into(), args: vec![Term::var("$X"), Term::var("$Y"), Term::var("$Z")], body: Some(body) });
    }
    let qargs = vec![
        if chance(s, 1, 6) { small_const(s) } else { Term::var("$A") },
        Term::var("$B"),
        if chance(s, 1, 6) { Term::Anon } else { Term::var("$C") },
    ];
    let qargs = if feat.anon { qargs } else { qargs.into_iter().map(|t| if t == Term::Anon { Term::var("$C") } else { t }).collect() };
    Program { clauses, qname: "main".into(), qargs }
}

// ------------------------------------------------------------------ family (iv): sizes the other families do not reach

/// Wide predicates (arity 4-9), many clauses per predicate (8-20), long lists (8-24 elements) walked by the
/// recursive library, clauses with 8-18 distinct variables in long conjunctions, deeply nested terms (6-12
/// levels), long names. Small in search cost (every generator goal is followed by tests), large in shape.
pub fn gen_large_program(s: &mut dyn Src, feat: Features) -> Program {
    let lib = "
        member($X, [$X | $_]).
        member($X, [$_ | $T]) :- member($X, $T).
        len([], 0).
        len([$_ | $T], $N) :- len($T, $M), $N = add($M, 1).
        app([], $L, $L).
        app([$H | $T], $L, [$H | $R]) :- app($T, $L, $R).
        last([$X], $X).
        last([$_ | $T], $X) :- last($T, $X).
        nth(0, [$X | $_], $X).
        nth($N, [$_ | $T], $X) :- $N > 0, $M = subtract($N, 1), nth($M, $T, $X).
    ";
    let mut clauses = parse_clauses(lib);
    let fact = |name: &str, args: Vec<Term>| Clause { name: name.to_string(), args, body: None };
    let long_name = |s: &mut dyn Src, stem: &str| -> String { if chance(s, 1, 3) { format!("{}_{}", stem, "abcdefghij".repeat(2 + s.draw(3) as usize)) } else { stem.to_string() } };
    // a wide table
    let wide = long_name(s, "wide");
    let arity = 4 + s.draw(6) as usize;
    let rows = 6 + s.draw(12) as usize;
    for r in 0..rows {
        let args: Vec<Term> = (0..arity).map(|c| {
            if c == 0 { Term::Int((r % 5) as i64) }
            else if chance(s, 1, 12) { Term::Var(format!("$C{}", c)) }
            else if chance(s, 1, 3) { Term::atom(pick(s, &ATOMS)) } else { Term::Int(s.draw(3) as i64) }
        }).collect();
        clauses.push(fact(&wide, args));
    }
    // many clauses of one predicate, facts and rules mixed
    let many = long_name(s, "many");
    let nmany = 8 + s.draw(13) as usize;
    for i in 0..nmany {
        if chance(s, 1, 4) {
            clauses.push(Clause { name: many.clone(), args: vec![Term::var("$K")], body: Some(Goal::And(vec![
                Goal::Call(wide.clone(), (0..arity).map(|c| if c == 0 { Term::var("$K") } else if c == 1 { Term::atom(pick(s, &ATOMS)) } else { Term::Anon }).collect()),
                Goal::Compare(pick(s, &CmpOp::ALL), Term::var("$K"), Term::Int(s.draw(5) as i64))])) });
        } else { clauses.push(fact(&many, vec![Term::Int((i % 7) as i64)])); }
    }
    // a long list and a deep term
    let n = 8 + s.draw(17) as usize;
    let long_list = Term::List((0..n).map(|i| if chance(s, 1, 5) { Term::atom(pick(s, &ATOMS)) } else { Term::Int((i % 6) as i64) }).collect(), None);
    clauses.push(fact("longlist", vec![long_list.clone()]));
    let depth = 6 + s.draw(7);
    let mut deep = Term::var("$Core");
    for i in 0..depth { deep = if i % 3 == 2 { Term::List(vec![deep], None) } else { Term::Cmp(pick(s, &["f", "g"]).to_string(), if i % 2 == 0 { vec![deep] } else { vec![Term::Int(i as i64), deep] }) }; }
    clauses.push(fact("deep", vec![deep.clone()]));
    // a clause with many distinct variables in a long conjunction
    let nv = 8 + s.draw(11) as usize;
    let vname = |i: usize| format!("$V{}", i + 1);
    let mut body: Vec<Goal> = vec![];
    let mut bound = 0usize;   // variables $V1..$V<bound> are bound by now
    while bound < nv {
        let take = (nv - bound).min(arity - 1).max(1);
        let mut args = vec![Term::Int(s.draw(5) as i64)];
        for c in 1..arity { args.push(if c <= take { Term::Var(vname(bound + c - 1)) } else { Term::Anon }); }
        body.push(Goal::Call(wide.clone(), args));
        bound += take;
        // a test right after each generator keeps the search small
        let a = s.draw(bound as u32) as usize;
        let b = s.draw(bound as u32) as usize;
        body.push(match s.draw(3) { 0 => Goal::Unify(Term::Var(vname(a)), Term::Var(vname(b))), 1 => Goal::Compare(CmpOp::Eq, Term::Var(vname(a)), Term::Var(vname(a))), _ => Goal::Call(many.clone(), vec![Term::Int(s.draw(7) as i64)]) });
    }
    let extra = s.draw(4);
    for _ in 0..extra {
        body.push(match s.draw(6) {
            0 => Goal::And(vec![Goal::Call("longlist".into(), vec![Term::var("$L")]), Goal::Call("len".into(), vec![Term::var("$L"), Term::var("$N")])]),
            1 => Goal::And(vec![Goal::Call("longlist".into(), vec![Term::var("$L")]), Goal::Call("last".into(), vec![Term::var("$L"), Term::var("$E")])]),
            2 => Goal::And(vec![Goal::Call("longlist".into(), vec![Term::var("$L")]), Goal::Call("nth".into(), vec![Term::Int(s.draw(n as u32) as i64), Term::var("$L"), Term::var("$E")])]),
            3 => Goal::And(vec![Goal::Call("deep".into(), vec![Term::var("$D")]), Goal::Unify(Term::var("$D"), deep.map_vars(&mut |_| Term::atom("core")))]),
            4 if feat.cut => Goal::Cut,
            _ => Goal::BuiltIn("count".into(), vec![long_list.clone(), Term::var("$Cnt")]),
        });
    }
    let head_vars: Vec<Term> = vec![Term::Var(vname(0)), Term::Var(vname(nv - 1)), Term::Var(vname(nv / 2))];
    let big = long_name(s, "big");
    clauses.push(Clause { name: big.clone(), args: head_vars, body: Some(Goal::And(body)) });
    // the query: the big rule, or one of the size-driven library calls directly
    match s.draw(5) {
        0 => Program { clauses, qname: "app".into(), qargs: vec![Term::var("$A"), Term::var("$B"), long_list] },
        1 => Program { clauses, qname: "member".into(), qargs: vec![Term::var("$A"), long_list] },
        2 => Program { clauses, qname: many, qargs: vec![Term::var("$A")] },
        3 => Program { clauses, qname: wide, qargs: (0..arity).map(|c| Term::Var(format!("$Q{}", c + 1))).collect() },
        _ => Program { clauses, qname: big, qargs: vec![Term::var("$A"), Term::var("$B"), Term::var("$C")] },
    }
}

/// Mixture of the four families; returns the family label.
pub fn gen_any_program(s: &mut dyn Src, feat: Features) -> (Program, &'static str) {
    match weighted(s, &[10, 6, 2, 1]) {
        0 => (gen_program(s, feat, false), "stratified"),
        1 => (gen_template_program(s, feat), "recursive-template"),
        2 => (gen_program(s, feat, true), "free-recursion"),
        _ => (gen_large_program(s, feat), "large-shapes"),
    }
}
