//! C24: a corpus of generated programs and call histories, produced natively (proptest
//! owns the randomness), replayed under a dynamic undefined-behaviour detector (Miri).
//! The same runner is used natively to record the expected answer counts, so the Miri run
//! is known to execute what the corpus claims.

use crate::ast::*;
use crate::choice::*;
use crate::engine::*;
use crate::gen::*;
use crate::refsolve::{solve_program, Limits, Status};
use crate::render;
use proptest::collection::vec;
use proptest::prelude::any;
use proptest::test_runner::{Config, RngSeed, TestRunner};
use serde_json::{json, Value};
use std::cell::RefCell;
use std::rc::Rc;

/// Kinds of history replayed for every corpus entry.
pub const KINDS: [&str; 7] = ["enumerate+reask", "solve_all+solve", "two-queries", "parse-and-solve", "timer", "load-file", "grow-kb"];

fn features(with_cut: bool) -> Features { Features { cut: with_cut, not: true, output: false, anon: true, alias_heavy: false } }

pub fn decode(choices: &[u16], with_cut: bool) -> Program {
    let mut src = VecSrc::new(choices);
    gen_any_program(&mut src, features(with_cut)).0
}

/// Generates `n` corpus entries whose reference search is small (Miri is ~1000x slower).
pub fn make_corpus(seed: u64, n: usize, with_cut: bool, native: bool) -> Vec<Value> {
    let out: RefCell<Vec<Value>> = RefCell::new(vec![]);
    let config = Config { cases: (n * 40) as u32, failure_persistence: None, rng_seed: RngSeed::Fixed(splitmix(seed ^ 0xC24)), ..Config::default() };
    let mut runner = TestRunner::new(config);
    let strat = vec(any::<u16>(), 0..=160);
    let _ = runner.run(&strat, |v| {
        let mut o = out.borrow_mut();
        if o.len() >= n { return Ok(()); }
        let p = decode(&v, with_cut);
        let r = solve_program(&p, Limits { steps: 250, depth: 40, answers: 12 });
        if r.status != Status::Finished { return Ok(()); }
        let uses_cut = r.stats.cut_exec > 0;
        if with_cut && !uses_cut && o.len() % 3 != 0 { return Ok(()); }
        // native run: expected number of answers (skip programs the engine itself gets wrong: C01's business)
        // (without the native run - used when the native run itself crashes - the expected count is the reference's)
        let answers = if native {
            let run = match run_program(&p, 20, 1, 5_000_000) { Ok(x) => x, Err(_) => return Ok(()) };
            if run.answers.len() != r.stats.answers { return Ok(()); }
            run.answers.len()
        } else { r.stats.answers };
        let kind = o.len() % KINDS.len();
        o.push(json!({"choices": v, "cut": with_cut, "kind": KINDS[kind], "answers": answers, "steps": r.stats.steps,
                      "cut_executed": uses_cut, "text": format!("{}", p)}));
        Ok(())
    });
    out.into_inner()
}

/// Programs in which a cut is executed while a not(...) or time(...) node is one of its ancestors
/// (API-built: the text parser only accepts a single subgoal inside not/time). The reference solver
/// does not model these, so the expected answer count is the native run's.
pub fn gen_cut_under(s: &mut dyn Src) -> Program {
    let nfacts = 1 + s.draw(3) as i64;
    let mut clauses: Vec<Clause> = (1..=nfacts).map(|i| Clause { name: "item".into(), args: vec![Term::Int(i)], body: None }).collect();
    clauses.push(Clause { name: "ok".into(), args: vec![Term::Int(1 + s.draw(3) as i64)], body: None });
    let leaf = |s: &mut dyn Src| -> Goal {
        match s.draw(6) {
            0 => Goal::Call("item".into(), vec![Term::var("$Y")]),
            1 => Goal::Call("ok".into(), vec![Term::var("$X")]),
            2 => Goal::Compare(CmpOp::Gt, Term::var("$X"), Term::Int(s.draw(3) as i64)),
            3 => Goal::Unify(Term::var("$Z"), Term::var("$X")),
            4 => Goal::Fail,
            _ => Goal::Call("item".into(), vec![Term::var("$X")]),
        }
    };
    // a conjunction (or disjunction branch) that contains the cut at a generated position
    let mut inner: Vec<Goal> = (0..s.draw(3)).map(|_| leaf(s)).collect();
    let pos = s.draw(inner.len() as u32 + 1) as usize;
    inner.insert(pos, Goal::Cut);
    let mut g = if inner.len() == 1 { Goal::Cut } else { Goal::And(inner) };
    if chance(s, 1, 4) { g = Goal::Or(vec![g, leaf(s)]); }
    // one or two levels of not / time around it
    let levels = 1 + s.draw(2);
    for _ in 0..levels { g = if chance(s, 1, 2) { Goal::Not(Box::new(g)) } else { Goal::Time(Box::new(g)) }; }
    let mut body = vec![Goal::Call("item".into(), vec![Term::var("$X")])];
    if chance(s, 1, 2) { body.push(leaf(s)); }
    body.push(g);
    if chance(s, 1, 2) { body.push(leaf(s)); }
    clauses.push(Clause { name: "t".into(), args: vec![Term::var("$X")], body: Some(Goal::And(body)) });
    if chance(s, 1, 2) { clauses.push(Clause { name: "t".into(), args: vec![Term::Int(9)], body: None }); }
    Program { clauses, qname: "t".into(), qargs: vec![Term::var("$Q")] }
}

/// Corpus entries of the class above: choice sequences plus the native answer count.
pub fn make_cut_under_corpus(seed: u64, n: usize, native: bool) -> Vec<Value> {
    let out: RefCell<Vec<Value>> = RefCell::new(vec![]);
    let config = Config { cases: (n * 20) as u32, failure_persistence: None, rng_seed: RngSeed::Fixed(splitmix(seed ^ 0xC24C)), ..Config::default() };
    let mut runner = TestRunner::new(config);
    let strat = vec(any::<u16>(), 8..=40);
    let _ = runner.run(&strat, |v| {
        let mut o = out.borrow_mut();
        if o.len() >= n { return Ok(()); }
        let mut src = VecSrc::new(&v);
        let p = gen_cut_under(&mut src);
        let answers: Value = if native { match run_program(&p, 20, 1, 5_000_000) { Ok(x) => json!(x.answers.len()), Err(_) => return Ok(()) } } else { Value::Null };
        let text = format!("{}", p);
        if o.iter().any(|e: &Value| e["text"].as_str() == Some(&text)) { return Ok(()); }
        o.push(json!({"choices": v, "cut": true, "special": "cut-under-not-time", "kind": "cut-under-not-time", "answers": answers,
                      "cut_executed": true, "text": text}));
        Ok(())
    });
    out.into_inner()
}

/// One-rule programs from the list built-in generators of C16 / C17 (append, count, include, exclude, functor,
/// join over lists with bound tails, rule-built lists, bound-variable elements).
pub fn gen_list_builtin_program(s: &mut dyn Src) -> Option<Program> {
    use crate::props::builtins::BAspect;
    let aspect = match s.draw(6) { 0 | 1 => BAspect::Append, 2 | 3 => BAspect::Misc, 4 => BAspect::Compare, _ => if chance(s, 1, 2) { BAspect::FuncSides } else { BAspect::Arith } };
    crate::props::builtins::scenario_programs(aspect, s).into_iter().next()
}

pub fn make_list_builtin_corpus(seed: u64, n: usize, native: bool) -> Vec<Value> {
    let out: RefCell<Vec<Value>> = RefCell::new(vec![]);
    let config = Config { cases: (n * 400) as u32, failure_persistence: None, rng_seed: RngSeed::Fixed(splitmix(seed ^ 0xC24B)), ..Config::default() };
    let mut runner = TestRunner::new(config);
    let strat = vec(any::<u16>(), 16..=120);
    let _ = runner.run(&strat, |v| {
        let mut o = out.borrow_mut();
        if o.len() >= n { return Ok(()); }
        let mut src = VecSrc::new(&v);
        let p = match gen_list_builtin_program(&mut src) { Some(p) => p, None => return Ok(()) };
        // keep the ones that walk a bound tail or a rule-built list (the shapes the walkers special-case)
        let text = format!("{}", p);
        let walks = text.contains("| $") || text.contains("copy(");
        let compares = text.contains("less_than") || text.contains("greater_than") || text.contains("equal(") || text.contains(" = add(") || text.contains("multiply(") ;
        // one entry in six compares an operand that is aliased to a still unbound body-local variable,
        // and one in six matches a functor against a `prefix*` pattern that may be longer than the functor
        let aliased = text.contains("$La");
        let long_prefix = text.contains("functor(") && ["noun_phrase*", "noun_*", "verbal*", "npx*"].iter().any(|p| text.contains(p));
        match o.len() % 6 {
            1 => if !aliased { return Ok(()); },
            3 => if !long_prefix { return Ok(()); },
            _ => if !(walks || compares) && o.len() % 4 != 0 { return Ok(()); },
        }
        let r = solve_program(&p, Limits { steps: 400, depth: 60, answers: 5 });
        if r.status != Status::Finished { return Ok(()); }
        let answers = if native {
            match run_program(&p, 20, 1, 5_000_000) { Ok(x) => { if x.answers.len() != r.stats.answers { return Ok(()); } x.answers.len() } Err(_) => return Ok(()) }
        } else { r.stats.answers };
        if o.iter().any(|e: &Value| e["text"].as_str() == Some(&text)) { return Ok(()); }
        o.push(json!({"choices": v, "cut": false, "special": "list-builtins", "kind": "list-builtins", "answers": answers, "cut_executed": false, "nontrivial": true, "text": text}));
        Ok(())
    });
    out.into_inner()
}

/// Replays one corpus entry through the public API. Returns a description of what was executed.
pub fn replay_entry(e: &Value) -> Result<String, String> {
    let choices: Vec<u16> = e["choices"].as_array().ok_or("choices")?.iter().map(|x| x.as_u64().unwrap_or(0) as u16).collect();
    let with_cut = e["cut"].as_bool().unwrap_or(false);
    // regression entries carry no count: their answer count is whatever the current tree gives
    let expected_opt = e["answers"].as_u64().map(|x| x as usize);
    let kind = e["kind"].as_str().unwrap_or("");
    let p = match e["special"].as_str() {
        Some("cut-under-not-time") => { let mut src = VecSrc::new(&choices); gen_cut_under(&mut src) }
        Some("list-builtins") => { let mut src = VecSrc::new(&choices); gen_list_builtin_program(&mut src).ok_or("list-builtin entry does not decode")? }
        _ => decode(&choices, with_cut),
    };
    let run = run_program(&p, 20, 2, u64::MAX).map_err(|f| format!("{:?}", f))?;
    let expected = expected_opt.unwrap_or(run.answers.len());
    if run.answers.len() != expected { return Err(format!("answer count {} differs from the native run's {}", run.answers.len(), expected)); }
    let mut did = format!("enumerated {} answers + 2 re-asks", expected);
    match kind {
        "solve_all+solve" => {
            let (all, _) = run_solve_all(&p, u64::MAX).map_err(|f| format!("{:?}", f))?;
            did.push_str(&format!("; solve_all gave {} strings", all.len()));
            let r = guarded(u64::MAX, || {
                suiron::start_query();
                let kb = crate::bridge::build_kb(&p.clauses);
                let sn = suiron::make_base_node(Rc::new(query_goal(&p)), &kb);
                let mut n = 0;
                loop { let s = suiron::solve(Rc::clone(&sn)); if s == "No more." || n > 20 || s.starts_with("Query timed out") { break; } n += 1; }
                n
            }).map_err(|f| format!("{:?}", f))?;
            did.push_str(&format!("; solve gave {} answers", r));
        }
        "two-queries" => {
            // abandon a query after one answer, then run it again from a fresh node
            let r = guarded(u64::MAX, || {
                suiron::start_query();
                let kb = crate::bridge::build_kb(&p.clauses);
                let sn = suiron::make_base_node(Rc::new(query_goal(&p)), &kb);
                let _ = suiron::next_solution(Rc::clone(&sn));
                let sn2 = suiron::make_base_node(Rc::new(query_goal(&p)), &kb);
                let mut n = 0;
                while suiron::next_solution(Rc::clone(&sn2)).is_some() { n += 1; if n > 20 { break; } }
                drop(sn);
                n
            }).map_err(|f| format!("{:?}", f))?;
            if r != expected { return Err(format!("second query found {} answers, expected {}", r, expected)); }
            did.push_str("; abandoned query + second query");
        }
        "parse-and-solve" => {
            if crate::props::solver::text_presentable(&p) {
                let texts: Vec<String> = p.clauses.iter().map(|c| render::clause(c, &render::CANON)).collect();
                let r = run_program_src(&p, Some(&texts), 20, 1, u64::MAX).map_err(|f| format!("{:?}", f))?;
                match r { Ok(run2) => { if run2.answers.len() != expected { return Err(format!("parsed program found {} answers, expected {}", run2.answers.len(), expected)); } did.push_str("; parsed from text and solved"); }
                          Err(m) => return Err(m) }
                // parsers on odd input
                let _ = guarded(u64::MAX, || { let _ = suiron::parse_rule("p($X) :- (a, b; c), not(d($X)), $X = [1, 2 | $T]."); let _ = suiron::parse_term("f(\\"); let _ = suiron::generate_goal("(a, (b; c)), d"); let _ = suiron::parse_query("q($X, [a | $_])."); });
            }
        }
        "load-file" => {
            // the program written to a file (one rule per line, a comment, a rule split over two lines), loaded and solved
            if crate::props::solver::text_presentable(&p) {
                let mut text = String::from("# generated\n");
                for c in &p.clauses {
                    let t = render::clause(c, &render::CANON);
                    match t.find(":- ") { Some(i) if t.len() % 2 == 0 => { text.push_str(&t[..i + 2]); text.push_str("\n    "); text.push_str(&t[i + 3..]); } _ => text.push_str(&t) }
                    text.push_str("   % c\n");
                }
                let dir = format!("{}/work/tmp", std::env::var("VERIF_DIR").unwrap_or_else(|_| "/verif".into()));
                let _ = std::fs::create_dir_all(&dir);
                let path = format!("{}/c24-{}.txt", dir, std::process::id());
                std::fs::write(&path, &text).map_err(|e| format!("cannot write {}: {}", path, e))?;
                let r = guarded(u64::MAX, || {
                    suiron::start_query();
                    let mut kb = suiron::KnowledgeBase::new();
                    if let Some(err) = suiron::load_kb_from_file(&mut kb, &path) { return Err(err); }
                    let _ = suiron::load_kb_from_file(&mut suiron::KnowledgeBase::new(), "/nonexistent/file.txt");
                    let _ = suiron::format_kb(&kb);
                    // a second, small file whose last rule ends the file in a different way each time: a digit right before
                    // the final period with nothing after it, a decimal number before it, blanks and empty lines after it
                    let (tail, rules) = [("zz_first(a).\nzz_last($X) :- $X = 7.", 2usize), ("zz_pi(3.14).\nzz_last($X) :- $X = 3.5.", 2), ("zz_n($X) :- $X == 42.  \n\n", 1), ("zz_a(1). zz_b(2).\nzz_c(1,\n  3).", 3)][text.len() % 4];
                    let path2 = format!("{}.tail", path);
                    if std::fs::write(&path2, tail).is_ok() {
                        let mut kb2 = suiron::KnowledgeBase::new();
                        if let Some(err) = suiron::load_kb_from_file(&mut kb2, &path2) { return Err(format!("{:?}: {}", tail, err)); }
                        let n: usize = kb2.values().map(|v| v.len()).sum();
                        if n != rules { return Err(format!("{:?}: {} rules loaded, expected {}", tail, n, rules)); }
                        let _ = std::fs::remove_file(&path2);
                    }
                    let sn = suiron::make_base_node(Rc::new(query_goal(&p)), &kb);
                    let mut n = 0;
                    while suiron::next_solution(Rc::clone(&sn)).is_some() { n += 1; if n > 20 { break; } }
                    Ok(n)
                }).map_err(|f| format!("{:?}", f))?;
                match r { Ok(n) => { if n != expected { return Err(format!("loaded program found {} answers, expected {}", n, expected)); } did.push_str("; written to a file, loaded with load_kb_from_file and solved"); }
                          Err(m) => return Err(format!("load_kb_from_file rejected the generated file: {}", m)) }
            }
        }
        "grow-kb" => {
            // query, then rules for a dozen new predicates are added (the table behind the knowledge base grows), then the
            // same query again, then more rules for an existing predicate and the query a third time
            let r = guarded(u64::MAX, || {
                suiron::start_query();
                let mut kb = crate::bridge::build_kb(&p.clauses);
                let count = |kb: &suiron::KnowledgeBase| { let sn = suiron::make_base_node(Rc::new(query_goal(&p)), kb); let mut n = 0; while suiron::next_solution(Rc::clone(&sn)).is_some() { n += 1; if n > 20 { break; } } n };
                let n1 = count(&kb);
                for i in 0..14 { suiron::add_rules(&mut kb, vec![suiron::make_fact(suiron::Unifiable::SComplex(vec![suiron::Unifiable::Atom(format!("zz_added_{}", i)), suiron::Unifiable::SInteger(i)]))]); }
                let n2 = count(&kb);
                for i in 0..3 { suiron::add_rules(&mut kb, vec![suiron::make_fact(suiron::Unifiable::SComplex(vec![suiron::Unifiable::Atom("zz_added_0".into()), suiron::Unifiable::SInteger(100 + i)]))]); }
                let n3 = count(&kb);
                // a clause that can never succeed is added to the queried predicate itself (its clause vector changes while
                // the number of predicates stays the same), the predicate is removed and put back, the whole knowledge
                // base is replaced by a new one in the same variable - each followed by the same query
                let qhead = suiron::Unifiable::SComplex(std::iter::once(suiron::Unifiable::Atom(p.qname.clone())).chain((0..p.qargs.len()).map(|i| suiron::Unifiable::LogicVar { id: 0, name: format!("$Zz{}", i) })).collect());
                let key = qhead.key();
                suiron::add_rules(&mut kb, vec![suiron::make_rule(qhead, suiron::Goal::BuiltInGoal(suiron::BuiltInPredicate::new("fail".to_string(), None)))]);
                let n4 = count(&kb);
                if let Some(rules) = kb.remove(&key) { let n5a = count(&kb); let _ = n5a; suiron::add_rules(&mut kb, rules); }
                let n5 = count(&kb);
                kb = crate::bridge::build_kb(&p.clauses);
                let n6 = count(&kb);
                let _ = suiron::format_kb(&kb);
                (n1, n2, n3, n4, n5, n6)
            }).map_err(|f| format!("{:?}", f))?;
            if r != (expected, expected, expected, expected, expected, expected) { return Err(format!("answers before / after changing the knowledge base: {:?}, expected {}", r, expected)); }
            did.push_str("; query, 14 new predicates added, query, 3 more facts, query, a failing clause added to the queried predicate, query, predicate removed and put back, query, knowledge base replaced, query");
        }
        "timer" => {
            // the timer thread fires while a search is running and reading the stop flag
            let slow = crate::ast_parse::parse_program("d(1). d(2). d(3). d(4). d(5). d(6). burn :- d($A), d($B), d($C), d($D), fail. q(a). q($X) :- burn, $X = b. q(c). ?- q($X).").unwrap();
            let r = guarded(u64::MAX, || {
                suiron::start_query();
                let kb = crate::bridge::build_kb(&slow.clauses);
                let sn = suiron::make_base_node(Rc::new(query_goal(&slow)), &kb);
                let t = suiron::start_query_timer(15);
                let mut n = 0;
                while suiron::next_solution(Rc::clone(&sn)).is_some() { n += 1; if suiron::query_stopped() || n > 5 { break; } }
                let fired = suiron::query_stopped();
                suiron::cancel_timer(t);
                (n, fired)
            }).map_err(|f| format!("{:?}", f))?;
            did.push_str(&format!("; timer(15 ms) during a burn query: {} answers, fired during search: {}", r.0, r.1));
            // test_query_timer's pattern: sleep past the timeout, cancel, read
            let t = suiron::start_query_timer(3);
            std::thread::sleep(std::time::Duration::from_millis(12));
            suiron::cancel_timer(t);
            let _ = suiron::query_stopped();
        }
        _ => {}
    }
    Ok(did)
}

pub fn replay_file(path: &str) -> i32 {
    let txt = match std::fs::read_to_string(path) { Ok(t) => t, Err(e) => { eprintln!("cannot read corpus {}: {}", path, e); return 3; } };
    let mut n = 0;
    for line in txt.lines() {
        if line.trim().is_empty() { continue; }
        let e: Value = match serde_json::from_str(line) { Ok(v) => v, Err(_) => continue };
        match replay_entry(&e) {
            Ok(did) => { n += 1; println!("UB-RUN ok entry={} kind={} cut_executed={} :: {}", n, e["kind"].as_str().unwrap_or(""), e["cut_executed"], did); }
            Err(m) => { println!("UB-RUN mismatch entry={} :: {}", n + 1, m); return 4; }
        }
    }
    println!("UB-RUN done entries={}", n);
    0
}
