//! Worker-side driver: regression corpus, bounded-exhaustive families, proptest-driven
//! random search with shrinking, replay.

use crate::choice::*;
use crate::report::*;
use proptest::collection::vec;
use proptest::prelude::any;
use proptest::test_runner::{Config, RngSeed, TestCaseError, TestError, TestRunner};
use serde_json::{json, Value};
use std::cell::RefCell;
use std::sync::atomic::{AtomicU64, Ordering};
use std::sync::Mutex;
use std::time::{Duration, Instant};

pub struct Family {
    pub name: &'static str,
    pub describe: &'static str,
    pub check: Box<dyn Fn(&mut dyn Src, &mut Report) -> CaseResult>,
    /// cap on the number of enumerated cases in the quick tier (None = all)
    pub quick_cap: Option<u64>,
}

pub trait Property {
    fn id(&self) -> &'static str;
    /// maximal length of the random choice vector
    fn max_len(&self) -> usize { 192 }
    /// decode one case from `src` and check it
    fn check(&self, src: &mut dyn Src, rep: &mut Report) -> CaseResult;
    /// bounded-exhaustive families (enumerated completely in the thorough tier)
    fn families(&self) -> Vec<Family> { vec![] }
    /// how cases are generated and what makes one non-trivial
    fn rule(&self) -> String;
    fn assumptions(&self) -> Vec<String> { vec![] }
    /// random cases per worker for (quick, thorough)
    fn budget(&self) -> (u64, u64) { (2000, 50_000) }
    /// shrink steps after a failure (each step re-runs the case: keep small when cases cost real time)
    fn max_shrink_iters(&self) -> u32 { 6000 }
    /// hand-written / regression cases checked first in every tier
    fn fixed(&self, _rep: &mut Report) -> Vec<(String, CaseResult)> { vec![] }
}

pub struct WorkerCfg {
    pub tier_thorough: bool,
    pub seed: u64,
    pub worker: u64,
    pub workers: u64,
    pub cases_override: Option<u64>,
    pub known_path: String,
    pub corpus_dir: String,
    pub strict: bool,
}

static CASE_START_MS: AtomicU64 = AtomicU64::new(0);
static CURRENT_CASE: Mutex<String> = Mutex::new(String::new());
static EPOCH: Mutex<Option<Instant>> = Mutex::new(None);

fn now_ms() -> u64 {
    let mut g = EPOCH.lock().unwrap();
    if g.is_none() { *g = Some(Instant::now()); }
    g.unwrap().elapsed().as_millis() as u64 + 1
}

pub fn note_case(desc: &str) {
    CASE_START_CPU_MS.store(process_cpu_ms(), Ordering::SeqCst);
    CASE_START_MS.store(now_ms(), Ordering::SeqCst);
    if let Ok(mut g) = CURRENT_CASE.lock() { g.clear(); g.push_str(desc); }
}
pub fn case_done() { CASE_START_MS.store(0, Ordering::SeqCst); }

static CASE_START_CPU_MS: AtomicU64 = AtomicU64::new(0);
static CPU_LIMIT: Mutex<Option<(String, u64)>> = Mutex::new(None);

fn process_cpu_ms() -> u64 {
    let mut ts = libc::timespec { tv_sec: 0, tv_nsec: 0 };
    unsafe { libc::clock_gettime(libc::CLOCK_PROCESS_CPUTIME_ID, &mut ts); }
    ts.tv_sec as u64 * 1000 + ts.tv_nsec as u64 / 1_000_000
}

/// For properties whose statement includes termination (C18: "within bounded time ... never loop"): a single
/// case that has burnt `cpu_s` seconds of *CPU time* (not wall time, so machine load cannot cause it) is reported
/// as a violation of `prop` instead of as an inconclusive watchdog kill.
pub fn set_cpu_limit(prop: &str, cpu_s: u64) { *CPU_LIMIT.lock().unwrap() = Some((prop.to_string(), cpu_s)); }

pub fn start_watchdog(limit_s: u64) {
    let _ = now_ms();
    std::thread::spawn(move || loop {
        std::thread::sleep(Duration::from_millis(500));
        let st = CASE_START_MS.load(Ordering::SeqCst);
        if st != 0 {
            if let Some((prop, cpu_s)) = CPU_LIMIT.lock().ok().and_then(|g| g.clone()) {
                let used = process_cpu_ms().saturating_sub(CASE_START_CPU_MS.load(Ordering::SeqCst));
                if used > cpu_s * 1000 {
                    let c = CURRENT_CASE.lock().map(|g| g.clone()).unwrap_or_default();
                    let choices: Vec<u32> = c.trim_start_matches("choices=[").trim_end_matches(']').split(',').filter_map(|x| x.trim().parse().ok()).collect();
                    let msg = json!({"property": prop, "evaluations": 1, "classes": {}, "discards": {}, "known_hits": {}, "samples": [], "nontrivial_hashes": [],
                        "failure": {"kind": "does-not-return", "signature": format!("{}:does-not-return", prop),
                                    "message": format!("a single case used more than {} s of CPU time without returning (the property includes termination)", cpu_s),
                                    "case": c, "choices": choices, "family": "random16"}}).to_string();
                    crate::capture::real_stdout(&format!("{}\n", msg));
                    std::process::exit(1);
                }
            }
        }
        // inconclusive watchdog: `limit_s` seconds of CPU time in one case, or ten times that in wall time (a case that
        // sleeps or deadlocks) - wall time alone would make an overloaded machine look like a hang
        let cpu_used = process_cpu_ms().saturating_sub(CASE_START_CPU_MS.load(Ordering::SeqCst));
        if st != 0 && (cpu_used > limit_s * 1000 || now_ms().saturating_sub(st) > limit_s * 10_000) {
            let c = CURRENT_CASE.lock().map(|g| g.clone()).unwrap_or_default();
            let msg = json!({"watchdog": true, "case": c, "limit_s": limit_s}).to_string();
            crate::capture::real_stdout(&format!("{}\n", msg));
            eprintln!("WATCHDOG: a single case used more than {} s of CPU time or {} s of wall time (inconclusive): {}", limit_s, limit_s * 10, c);
            std::process::exit(2);
        }
    });
}

fn choices_desc(v: &[u16]) -> String { format!("choices={:?}", v) }

fn is_known(known: &[KnownFinding], prop: &str, sig: &str) -> Option<usize> {
    known.iter().position(|k| k.property == prop && sig.contains(&k.signature))
}

/// Result of a worker run, as JSON.
pub fn run_worker(prop: &dyn Property, cfg: &WorkerCfg) -> Value {
    let t0 = Instant::now();
    let known: Vec<KnownFinding> = if cfg.strict { vec![] } else { load_known(&cfg.known_path) };
    let mut rep = Report::new();
    let mut failure: Option<(Failure, Vec<u32>, String)> = None; // failure, choices, family

    // ---- 1. fixed / regression cases (worker 0 only)
    if cfg.worker == 0 {
        for (name, r) in prop.fixed(&mut rep) {
            rep.eval();
            if let CaseResult::Fail(f) = r {
                if let Some(i) = is_known(&known, prop.id(), &f.signature) {
                    *rep.known_hits.entry(known[i].signature.clone()).or_insert(0) += 1;
                } else if failure.is_none() {
                    failure = Some((f, vec![], format!("fixed:{}", name)));
                }
            }
        }
        // saved replays of earlier findings
        let dir = format!("{}/{}", cfg.corpus_dir, prop.id());
        if let Ok(rd) = std::fs::read_dir(&dir) {
            let mut files: Vec<_> = rd.filter_map(|e| e.ok()).map(|e| e.path()).filter(|p| p.extension().map_or(false, |x| x == "json")).collect();
            files.sort();
            for p in files {
                if failure.is_some() { break; }
                let txt = std::fs::read_to_string(&p).unwrap_or_default();
                let v: Value = match serde_json::from_str(&txt) { Ok(v) => v, Err(_) => continue };
                let fam = v["family"].as_str().unwrap_or("random").to_string();
                let choices: Vec<u32> = v["choices"].as_array().map(|a| a.iter().map(|x| x.as_u64().unwrap_or(0) as u32).collect()).unwrap_or_default();
                let r = replay_choices(prop, &fam, &choices, &mut rep);
                rep.eval();
                rep.class("regression-corpus");
                if let CaseResult::Fail(f) = r {
                    if let Some(i) = is_known(&known, prop.id(), &f.signature) {
                        *rep.known_hits.entry(known[i].signature.clone()).or_insert(0) += 1;
                    } else {
                        failure = Some((f, choices, fam));
                    }
                }
            }
        }
    }

    // ---- 2. bounded-exhaustive families, sharded over workers
    if failure.is_none() {
        for fam in prop.families() {
            let mut e = EnumSrc::new();
            let mut idx: u64 = 0;
            let mut checked: u64 = 0;
            let cap = if cfg.tier_thorough { None } else { fam.quick_cap };
            let mut complete = true;
            loop {
                e.restart();
                let mine = idx % cfg.workers == cfg.worker;
                if mine {
                    note_case(&format!("family={} index={}", fam.name, idx));
                    let r = (fam.check)(&mut e, &mut rep);
                    case_done();
                    rep.eval();
                    rep.exhaustive_evaluations += 1;
                    checked += 1;
                    match r {
                        CaseResult::Pass => {}
                        CaseResult::Discard(why) => rep.discard(&why),
                        CaseResult::Fail(f) => {
                            if let Some(i) = is_known(&known, prop.id(), &f.signature) {
                                *rep.known_hits.entry(known[i].signature.clone()).or_insert(0) += 1;
                            } else {
                                failure = Some((f, e.current(), fam.name.to_string()));
                                break;
                            }
                        }
                    }
                } else {
                    // still has to run the generator to advance the odometer: use a throwaway report
                    let mut scratch = Report::new();
                    scratch.frozen = true;
                    scratch.decode_only = true;
                    let _ = (fam.check)(&mut SkipSrc { inner: &mut e }, &mut scratch);
                }
                idx += 1;
                if let Some(c) = cap { if idx >= c { complete = !e.advance(); break; } }
                if !e.advance() { break; }
            }
            rep.exhaustive_families.push(json!({"family": fam.name, "describe": fam.describe, "enumerated": idx,
                "checked_by_this_worker": checked, "complete": complete && failure.is_none()}));
            if failure.is_some() { break; }
        }
    }

    // ---- 3. random search (proptest owns randomness and shrinking)
    if failure.is_none() {
        let (q, t) = prop.budget();
        let cases = cfg.cases_override.unwrap_or(if cfg.tier_thorough { t } else { q });
        if cases > 0 {
            let seed = splitmix(cfg.seed ^ splitmix(fnv(prop.id())) ^ splitmix(cfg.worker.wrapping_mul(0x9E37)));
            let config = Config {
                cases: cases as u32,
                failure_persistence: None,
                rng_seed: RngSeed::Fixed(seed),
                max_shrink_iters: prop.max_shrink_iters(),
                max_global_rejects: 1,
                ..Config::default()
            };
            let mut runner = TestRunner::new(config);
            let strat = vec(any::<u16>(), 0..=prop.max_len());
            let repc = RefCell::new(&mut rep);
            let first_sig: RefCell<Option<String>> = RefCell::new(None);
            let result = runner.run(&strat, |v| {
                let mut rep = repc.borrow_mut();
                let shrinking = first_sig.borrow().is_some();
                if shrinking { rep.frozen = true; }
                note_case(&choices_desc(&v));
                let mut src = VecSrc::new(&v);
                let r = prop.check(&mut src, &mut rep);
                case_done();
                if !shrinking { rep.eval(); }
                match r {
                    CaseResult::Pass => Ok(()),
                    CaseResult::Discard(why) => { rep.discard(&why); Ok(()) }
                    CaseResult::Fail(f) => {
                        if let Some(i) = is_known(&known, prop.id(), &f.signature) {
                            if !shrinking { *rep.known_hits.entry(known[i].signature.clone()).or_insert(0) += 1; }
                            return Ok(());
                        }
                        let mut fs = first_sig.borrow_mut();
                        match &*fs {
                            None => { *fs = Some(f.signature.clone()); rep.frozen = true; Err(TestCaseError::fail(f.signature)) }
                            Some(sig) => if *sig == f.signature { Err(TestCaseError::fail(f.signature)) } else { Ok(()) },
                        }
                    }
                }
            });
            drop(repc);
            if let Err(TestError::Fail(_, minimal)) = result {
                // re-run the minimal case to get its details
                let mut scratch = Report::new();
                scratch.frozen = true;
                let mut src = VecSrc::new(&minimal);
                let mut choices: Vec<u32> = minimal.iter().map(|x| *x as u32).collect();
                // keep only the prefix that is actually consumed
                let r = prop.check(&mut src, &mut scratch);
                choices.truncate(src.used());
                if let CaseResult::Fail(f) = r {
                    failure = Some((f, choices, "random16".to_string()));
                } else {
                    rep.notes.push("shrunk case did not reproduce; reporting unshrunk failure".to_string());
                    failure = Some((Failure { kind: "unstable".into(), signature: first_sig.borrow().clone().unwrap_or_default(),
                        message: "failure did not reproduce on re-run of the shrunk case".into(), case: choices_desc(&minimal) }, choices, "random16".into()));
                }
            } else if let Err(TestError::Abort(why)) = result {
                rep.notes.push(format!("proptest aborted: {}", why));
            }
            rep.frozen = false;
        }
    }

    let mut out = rep.to_json();
    let o = out.as_object_mut().unwrap();
    o.insert("property".into(), json!(prop.id()));
    o.insert("worker".into(), json!(cfg.worker));
    o.insert("wall_s".into(), json!(t0.elapsed().as_secs_f64()));
    o.insert("rule".into(), json!(prop.rule()));
    o.insert("assumptions".into(), json!(prop.assumptions()));
    o.insert("nontrivial_hashes".into(), json!(rep.nontrivial.iter().map(|h| format!("{:016x}", h)).collect::<Vec<_>>()));
    if let Some((f, choices, fam)) = failure {
        o.insert("failure".into(), json!({
            "kind": f.kind, "signature": f.signature, "message": f.message, "case": f.case,
            "choices": choices, "family": fam,
        }));
    }
    out
}

/// Passes draws through to the odometer (used for cases another worker owns).
struct SkipSrc<'a> { inner: &'a mut EnumSrc }
impl<'a> Src for SkipSrc<'a> { fn draw(&mut self, n: u32) -> u32 { self.inner.draw(n) } }

pub fn replay_choices(prop: &dyn Property, family: &str, choices: &[u32], rep: &mut Report) -> CaseResult {
    if family == "random16" || family == "random" {
        let v: Vec<u16> = choices.iter().map(|x| *x as u16).collect();
        let mut src = VecSrc::new(&v);
        prop.check(&mut src, rep)
    } else if family.starts_with("fixed:") {
        let name = &family[6..];
        for (n, r) in prop.fixed(rep) { if n == name { return r; } }
        CaseResult::Discard(format!("no fixed case {}", name))
    } else {
        for fam in prop.families() {
            if fam.name == family {
                let mut src = ListSrc::new(choices.to_vec());
                return (fam.check)(&mut src, rep);
            }
        }
        CaseResult::Discard(format!("no family {}", family))
    }
}
