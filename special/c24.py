"""C24 - no undefined behaviour on any API call sequence.

A corpus of generated programs / call histories is produced natively by the harness
(`sverif ubcorpus`, proptest owns the randomness, the native run records the expected answer
counts), split into shards, and every shard is replayed through the public API under Miri
(`cargo +nightly miri run ... -- ubrun <shard>`): the dynamic UB detector is the oracle.

Exit codes follow ./check: 0 held, 1 VIOLATION (Miri reported Undefined Behavior / a data race),
2 inconclusive (Miri could not run, unsupported operation, time-out, answer-count mismatch).
"""
import hashlib
import signal
import json
import os
import re
import subprocess
import time

MIRIFLAGS = "-Zmiri-disable-isolation -Zmiri-ignore-leaks"
# (entries without cut, entries with cut, entries with a cut under not/time, list built-in scenarios, shards, per-shard time-out in s)
TIERS = {"quick": (24, 44, 12, 24, 16, 600), "thorough": (240, 480, 160, 240, 16, 3600)}


def miri_cmd(path):
    return ["cargo", "+nightly", "miri", "run", "--offline", "--bin", "sverif", "--", "ubrun", path]


def miri_env(chk, seed):
    env = dict(chk.ENV)
    env["MIRIFLAGS"] = "%s -Zmiri-seed=%d" % (MIRIFLAGS, seed % (1 << 32))
    env.pop("RUSTFLAGS", None)
    return env


def parse_ub(stderr):
    """-> (kind, location, excerpt) if Miri reported undefined behaviour, else None."""
    m = re.search(r"^error: Undefined Behavior: (.*)$", stderr, re.M)
    if not m:
        return None
    msg = m.group(1)
    kind = re.sub(r"alloc\d+|<\d+>|0x[0-9a-f]+|\[[^\]]*\]|`[^`]*`|\d+", "_", msg)
    kind = " ".join(kind.split())[:100]
    tail = stderr[m.start():]
    locs = re.findall(r"(?:-->|at) (\S+?):(\d+):\d+", tail)
    loc = None
    for f, l in locs:
        if f.startswith("/repo/src/"):   # (relative src/... frames are the harness's own)
            loc = "%s:%s" % (f.replace("/repo/", ""), l)
            break
    if loc is None and locs:
        loc = "%s:%s" % (os.path.basename(locs[0][0]), locs[0][1])
    return kind, loc or "?", tail[:3000]


def run_shard(chk, path, seed, timeout):
    t0 = time.time()
    # own process group: on a time-out cargo, cargo-miri and the interpreter itself are all killed
    p = subprocess.Popen(miri_cmd(path), cwd=chk.HARNESS, env=miri_env(chk, seed), stdout=subprocess.PIPE,
                         stderr=subprocess.PIPE, text=True, start_new_session=True)
    try:
        out, err = p.communicate(timeout=timeout)
        return p.returncode, out, err, time.time() - t0
    except subprocess.TimeoutExpired:
        try:
            os.killpg(p.pid, signal.SIGKILL)
        except OSError:
            pass
        out, _ = p.communicate()
        return None, out or "", "time-out after %d s" % timeout, time.time() - t0


def classify(chk, pid, entries, rc, out, err):
    """-> dict(done=[(entry, did)], violation=None|{...}, inconclusive=None|str)"""
    oks = re.findall(r"^UB-RUN ok entry=(\d+) .*? :: (.*)$", out, re.M)
    done = [(entries[int(n) - 1], did) for n, did in oks if int(n) - 1 < len(entries)]
    res = {"done": done, "violation": None, "inconclusive": None}
    ub = parse_ub(err)
    if ub is not None:
        kind, loc, excerpt = ub
        nxt = entries[len(oks)] if len(oks) < len(entries) else None
        res["violation"] = {"signature": "%s:ub:%s@%s" % (pid, kind, loc), "kind": "undefined-behaviour", "entry": nxt,
                            "message": excerpt}
    elif rc is None:
        res["inconclusive"] = err
    elif rc != 0 or ("UB-RUN done entries=%d" % len(entries)) not in out:
        res["inconclusive"] = "Miri run ended with exit code %s without an Undefined Behavior diagnostic: %s %s" % (
            rc, out[-300:], err[-1500:])
    return res


def replay(chk, pid, path, seed):
    with open(path) as f:
        entries = [json.loads(l) for l in f if l.strip()]
    rc, out, err, _ = run_shard(chk, os.path.abspath(path), seed, 3600)
    res = classify(chk, pid, entries, rc, out, err)
    if res["violation"]:
        chk.log(res["violation"]["message"])
        print("VIOLATION property=%s replay=%s" % (pid, path))
        return 1
    if res["inconclusive"]:
        chk.log("INCONCLUSIVE: " + res["inconclusive"])
        return 2
    chk.log("replay: %d entries executed under Miri without a diagnostic" % len(res["done"]))
    return 0


def run(chk, pid, tier, seed, workers, cases, strict):
    t0 = time.time()
    n0, n1, n2, n3, shards, timeout = TIERS[tier]
    if cases is not None:
        n0, n1, n2, n3 = max(1, cases // 4), max(1, cases // 3), max(1, cases // 6), max(1, cases // 4)
    shards = max(1, min(shards, workers))
    ubdir = os.path.join(chk.VERIF, "work", "ub")
    os.makedirs(ubdir, exist_ok=True)
    for f in os.listdir(ubdir):
        os.unlink(os.path.join(ubdir, f))
    corpus = os.path.join(ubdir, "corpus.jsonl")
    r = subprocess.run([chk.BIN, "ubcorpus", corpus, str(seed), str(n0), str(n1), str(n2), str(n3)], env=chk.ENV, cwd=chk.VERIF,
                       stdout=subprocess.PIPE, stderr=subprocess.PIPE, text=True)
    native_crash = None
    if r.returncode < 0:
        # the engine crashed the corpus generator natively (a signal: memory error in "safe" API calls is itself a symptom
        # of undefined behaviour). Generate the corpus without native runs and let Miri name the cause.
        native_crash = "the native run of generated histories died with signal %d" % (-r.returncode)
        chk.log(native_crash + "; regenerating the corpus without native runs")
        r = subprocess.run([chk.BIN, "ubcorpus", corpus, str(seed), str(n0), str(n1), str(n2), str(n3), "--no-native"], env=chk.ENV, cwd=chk.VERIF,
                           stdout=subprocess.PIPE, stderr=subprocess.PIPE, text=True)
    if r.returncode != 0:
        chk.log(r.stderr[-2000:])
        chk.log("INCONCLUSIVE: could not generate the corpus")
        return 2
    with open(corpus) as f:
        entries = [json.loads(l) for l in f if l.strip()]
    if not entries:
        chk.log("INCONCLUSIVE: empty corpus")
        return 2
    # regression histories: the inputs on which the two repaired defects were observed
    with open(os.path.join(chk.VERIF, "special", "c24_regress.jsonl")) as f:
        entries = [json.loads(l) for l in f if l.strip()] + entries
    # build the Miri binary once (an empty corpus file executes nothing), then run the shards in parallel
    empty = os.path.join(ubdir, "empty.jsonl")
    open(empty, "w").close()
    rc, out, err, bw = run_shard(chk, empty, seed, 1800)
    if rc != 0 or "UB-RUN done entries=0" not in out:
        chk.log(err[-4000:])
        chk.log("INCONCLUSIVE: the harness does not build / start under Miri")
        return 2
    chk.log("miri build ok in %.1fs" % bw)
    # thorough: four times as many (smaller) shards as workers, handed out by a pool, so that one slow shard does not
    # decide the wall time; the time budget is for the whole pool
    nparts = shards * (4 if tier == "thorough" else 1)
    parts = [entries[i::nparts] for i in range(nparts)]
    parts = [p for p in parts if p]
    paths = []
    for i, p in enumerate(parts):
        path = os.path.join(ubdir, "shard-%02d.jsonl" % i)
        with open(path, "w") as f:
            for e in p:
                f.write(json.dumps(e) + "\n")
        paths.append(path)
    deadline = time.time() + timeout
    unexplored = [0]

    def one(i):
        remaining = deadline - time.time()
        if remaining < 30:
            unexplored[0] += len(parts[i])
            return {"done": [], "violation": None, "inconclusive": None}
        rc, out, err, _ = run_shard(chk, paths[i], seed + i, remaining)
        res = classify(chk, pid, parts[i], rc, out, err)
        if rc is None and res["violation"] is None:
            # the time budget ran out: what was not executed is not explored (stated in the evidence), not a failure
            unexplored[0] += len(parts[i]) - len(res["done"])
            res["inconclusive"] = None
        return res
    from concurrent.futures import ThreadPoolExecutor
    with ThreadPoolExecutor(max_workers=shards) as ex:
        results = list(ex.map(one, range(len(parts))))
    wall = time.time() - t0

    kf = chk.load_known()
    known = {k["signature"]: k for k in kf.get("known", []) if k.get("property") == pid}
    known_hits, violations, inconclusive = {}, [], []
    done = []
    for res in results:
        done += res["done"]
        v = res["violation"]
        if v:
            if v["signature"] in known:
                known_hits[v["signature"]] = known_hits.get(v["signature"], 0) + 1
            else:
                violations.append(v)
        if res["inconclusive"]:
            inconclusive.append(res["inconclusive"])

    def nontrivial(e, did):
        return bool(e.get("cut_executed")) or bool(e.get("nontrivial")) or "fired during search: true" in did
    hashes = set()
    classes = {}
    samples = []
    for e, did in done:
        classes["kind:" + e.get("kind", "?")] = classes.get("kind:" + e.get("kind", "?"), 0) + 1
        if e.get("cut_executed"):
            classes["cut-executed"] = classes.get("cut-executed", 0) + 1
        if "fired during search: true" in did:
            classes["timer-fired-during-search"] = classes.get("timer-fired-during-search", 0) + 1
        if nontrivial(e, did):
            hashes.add(hashlib.sha1(json.dumps([e["choices"], e["cut"], e["kind"]]).encode()).hexdigest())
            if len(samples) < 8:
                samples.append({"program": e.get("text"), "history": e.get("kind"), "executed": did})
    merged = {
        "evaluations": len(done), "distinct_nontrivial": len(hashes),
        "rule": "programs from the C01-C05 generators (cut at any position, not, nested and/or, anonymous variables) whose reference search is small (<= 250 steps) and whose native answer count equals the reference's, plus API-built programs in which a cut executes underneath one or two levels of not(...) / time(...) (expected count = the native run's), plus one-rule programs from the list built-in generators of C16/C17 (append, count, include, exclude, functor, join over lists with bound tails, rule-built lists, bound-variable elements) and from the comparison / function-term / arithmetic scenario generators of C12-C14 (operands aliased to body-local unbound variables, functor patterns longer than the functor); each is replayed under Miri (Stacked Borrows, data-race detection, leaks ignored) through one of seven histories: enumerate + 2 re-asks; solve_all + solve; abandoned query + second query; parse from text + solve + parser calls on odd input; 15 ms timer firing during a slow search + sleep/cancel/read; program written to a file, loaded with load_kb_from_file and solved, plus a second small file whose end differs from case to case (digit before the final period and nothing after it, decimal number, trailing blanks and empty lines, rule split over lines); query, knowledge base grown / clause added to the queried predicate / removed and re-added / replaced, query again. Oracle: no Undefined Behavior diagnostic, and the answer count under Miri equals the native one. Non-trivial = the history executed a cut, or the timer fired while the search was running, or a list built-in walked a bound tail / rule-built list; distinct by (program, history).",
        "samples": samples, "classes": classes, "discards": {}, "discard_rate": 0.0, "known_hits": known_hits,
        "workers": len(paths),
        "notes": ["miri flags: %s -Zmiri-seed=<VERIF_SEED + shard>" % MIRIFLAGS,
                  "corpus of %d histories in %d shards; %d executed completely" % (len(entries), len(paths), len(done))] + inconclusive
                 + (["%d histories were not executed within the time budget of %d s (not explored)" % (unexplored[0], timeout)] if unexplored[0] else []),
        "assumptions": ["Miri's Stacked Borrows model is taken as the definition of aliasing UB; memory leaks (parent/child Rc cycles) are not UB and are ignored",
                        "the timer thread's interleaving with the search is whatever Miri's scheduler and the real clock produce, not enumerated"],
    }
    for sig, k in known.items():
        print("KNOWN-FINDING: property=%s %s [signature %s; hit %d times in this run]" % (pid, k.get("what", ""), sig, known_hits.get(sig, 0)))
    if violations:
        v = violations[0]
        os.makedirs(chk.REPLAYS, exist_ok=True)
        h = hashlib.sha1(json.dumps(v["entry"]).encode()).hexdigest()[:10]
        path = os.path.join(chk.REPLAYS, "%s-%s.jsonl" % (pid, h))
        with open(path, "w") as f:
            if v["entry"] is not None:
                f.write(json.dumps(v["entry"]) + "\n")
        chk.write_evidence(pid, tier, seed, merged, wall, len(violations))
        chk.log("---- violation (%s) %s ----" % (v["kind"], v["signature"]))
        if v["entry"] is not None:
            chk.log("history: %s\nprogram:\n%s" % (v["entry"].get("kind"), v["entry"].get("text")))
        chk.log(v["message"])
        print("VIOLATION property=%s replay=%s" % (pid, path))
        return 1
    if native_crash:
        merged["notes"].append(native_crash)
        inconclusive.append(native_crash + ", but Miri reported nothing on the same histories")
    chk.write_evidence(pid, tier, seed, merged, wall, 0)
    if inconclusive:
        chk.log("\n".join(inconclusive))
        chk.log("INCONCLUSIVE: %d shard(s) did not finish" % len(inconclusive))
        return 2
    if unexplored[0]:
        chk.log("time budget of %d s used up: %d of %d histories not executed (not explored)" % (timeout, unexplored[0], len(entries)))
        if len(done) * 2 < len(entries):
            chk.log("INCONCLUSIVE: fewer than half of the histories were executed")
            return 2
    chk.log("%s %s: %d histories under Miri, %d distinct non-trivial, %.1fs" % (pid, tier, len(done), len(hashes), wall))
    return 0
